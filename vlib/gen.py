"""Hypothesis strategies for block-structured definitions (fragment F of
DESIGN.md 2.2), job sets and presentations; structural features used for the
class histogram and for the input predicates of known findings."""
from __future__ import annotations

import glob
import os

from hypothesis import strategies as st

from vlib import pumlsem as ps
from vlib.pumlsem import Seq, Ev, Fork, Loop, Break, Kill

EXOTIC = ["a.b", "x y", "A/B", "9", "END", "KILL", "MY_LOOP", "LOOPY",
          "START", "e_1", "break", "fork", "X-Y", "Ünï", "a:b", "(p)",
          "repeat while", "detach", "DUMMY", "0LOOP0"]


class _G:
    def __init__(self, draw, max_events, exotic, allow_loops, allow_kill,
                 two_breaks=True, empty_break=False, adjacent=False):
        self.two_breaks = two_breaks
        self.empty_break = empty_break
        self.adjacent = adjacent
        self.draw = draw
        self.n = 0
        self.max_events = max_events
        self.exotic = exotic
        self.allow_loops = allow_loops
        self.allow_kill = allow_kill

    def integers(self, lo, hi):
        return self.draw(st.integers(lo, hi))

    def chance(self, num, den=10):
        return self.draw(st.integers(0, den - 1)) < num

    def name(self):
        self.n += 1
        if self.exotic and self.chance(5):
            tok = EXOTIC[self.integers(0, len(EXOTIC) - 1)]
            return f"{tok}{self.n}" if self.chance(5) else f"{self.n}{tok}"
        return f"E{self.n}"

    def budget(self):
        return self.n < self.max_events

    def seq(self, depth, in_loop, first_block=False):
        """Seq = Ev (Ev | Fork Ev? | Loop Ev?)*"""
        items = [] if first_block else [Ev(self.name())]
        nblocks = self.integers(0, 2) if self.budget() else 0
        if first_block:
            nblocks = max(1, nblocks)
        for b in range(nblocks):
            if not self.budget() and not (first_block and b == 0):
                break
            r = self.integers(0, 19)
            if first_block and b == 0:
                r = 10
            if r < 5:
                items.append(Ev(self.name()))
            elif r < 14 and depth < 3:
                items.append(self.fork(depth + 1, in_loop))
                if self.chance(7):
                    items.append(Ev(self.name()))
                else:
                    break           # sequence ends in a block (bunched merge)
            elif depth < 3 and self.allow_loops:
                items.append(self.loop(depth, in_loop))
                if self.chance(7):
                    items.append(Ev(self.name()))
                else:
                    break
            else:
                items.append(Ev(self.name()))
        return items

    def fork(self, depth, in_loop):
        kind = ["AND", "OR", "XOR"][self.integers(0, 2)]
        nb = 2 if self.chance(7) else 3
        branches = [self.seq(depth, in_loop) for _ in range(nb)]
        if (self.allow_kill and kind in ("AND", "OR") and depth == 1
                and not in_loop and self.chance(3)):
            k = self.integers(0, nb - 1)
            if not isinstance(branches[k][-1], (Fork, Loop)):
                branches[k] = branches[k] + [Kill()]
        return Fork(kind, tuple(Seq(tuple(b)) for b in branches))

    def loop(self, depth, in_loop):
        nested = in_loop
        body = self.seq(depth, True)
        if self.chance(4):
            nbr = 1 if nested else (1 if self.chance(6) else 2)
            brk = Seq(tuple([Ev(self.name()) for _ in range(nbr)]
                            + [Break()]))
            other = [Seq((Ev(self.name()),))
                     for _ in range(1 if self.chance(6) else 2)]
            pos = self.integers(0, len(other))
            branches = other[:pos] + [brk] + other[pos:]
            if self.two_breaks and self.chance(3):
                # a second break branch at the same decision point
                b2 = Seq((Ev(self.name()), Break()))
                pos2 = self.integers(0, len(branches))
                branches = branches[:pos2] + [b2] + branches[pos2:]
            elif self.empty_break and self.chance(3):
                # leave the loop straight from the decision point: the break
                # branch carries no event of its own
                branches = [Seq((Break(),)) if b is brk else b
                            for b in branches]
            x = Fork("XOR", tuple(branches))
            sep = isinstance(body[-1], (Fork, Loop))
            if sep and self.adjacent and isinstance(body[-1], Loop) \
                    and self.chance(5):
                sep = False      # inner loop directly in front of the switch
            body = body + ([Ev(self.name())] if sep else []) + [x]
            if self.chance(5):
                body = body + [Ev(self.name())]
        return Loop(Seq(tuple(body)))


@st.composite
def definitions(draw, max_events=None, loops=True, loops_required=False,
                multi_start=None, exotic=None, kill=True, two_breaks=True,
                empty_break=None, adjacent=False):
    me = max_events or draw(st.integers(4, 16))
    ex = draw(st.integers(0, 9)) < 2 if exotic is None else exotic
    ms = (draw(st.integers(0, 9)) < 1) if multi_start is None else multi_start
    eb = (draw(st.integers(0, 9)) < 3) if empty_break is None else empty_break
    g = _G(draw, me, ex, loops, kill, two_breaks, eb, adjacent)
    items = g.seq(0, False, first_block=ms)
    ast = Seq(tuple(items))
    if loops_required and not any(isinstance(n, Loop) for n in ps.walk(ast)):
        lp = g.loop(0, False)
        tail = [Ev(g.name())] if g.chance(6) else []
        sep = [Ev(g.name())] if isinstance(items[-1], (Fork, Loop)) else []
        ast = Seq(tuple(list(items) + sep + [lp] + tail))
    return ast


# --------------------------------------------------------------------------
# structural features (classes + known-finding predicates)
# --------------------------------------------------------------------------
def features(ast) -> tuple:
    f = set()

    def has_break(loop):
        return any(isinstance(x, Fork) and any(
            b.items and isinstance(b.items[-1], Break) for b in x.branches)
            for x in loop.body.items)

    def w(seq, in_loop, is_top, tail_of_loop, depth, tail_via_fork=False,
          tailpos=False, seqtail=True, tail_chain=0):
        items = seq.items
        for i, it in enumerate(items):
            last = i == len(items) - 1
            if isinstance(it, Loop):
                f.add("loop")
                if in_loop:
                    f.add("nested_loop")
                if last and is_top:
                    f.add("loop_last_top")
                if last and tail_of_loop:
                    f.add("loop_tail_of_loop")
                if last and not is_top and not tail_of_loop:
                    f.add("loop_tail_of_branch")
                if i == 0:
                    f.add("loop_first_in_seq")
                body = it.body.items
                if isinstance(body[-1], Fork):
                    f.add("loopbody_ends_fork_" + body[-1].kind)
                if isinstance(body[0], Fork):
                    f.add("loopbody_starts_fork")
                if any(isinstance(a, Loop) and isinstance(b, Fork)
                       for a, b in zip(body, body[1:])):
                    f.add("loop_directly_before_fork")
                if len(body) == 1 and isinstance(body[0], Ev):
                    f.add("self_loop")
                if any(isinstance(x, Fork) for x in body):
                    f.add("fork_in_loop")
                if has_break(it):
                    if tailpos and last and any(
                            isinstance(x, Fork) and any(
                                len(b.items) == 1
                                and isinstance(b.items[0], Break)
                                for b in x.branches) for x in body):
                        # nothing follows the loop up to the end of the job
                        f.add("empty_break_loop_last")
                    f.add("break")
                    for x in body:
                        if isinstance(x, Fork):
                            nb = [b for b in x.branches
                                  if isinstance(b.items[-1], Break)]
                            if len(nb) >= 2:
                                f.add("two_breaks_one_decision")
                            if any(len(b.items) == 1 for b in nb):
                                f.add("empty_break")
                                if len(nb) >= 2:
                                    f.add("empty_break_beside_break")
                                    if last and (is_top or not tail_of_loop):
                                        f.add("empty_break_beside_break_"
                                              "seqlast")
                    for x in body:
                        if isinstance(x, Fork):
                            for b in x.branches:
                                if isinstance(b.items[-1], Break):
                                    if len(b.items) > 2:
                                        f.add("break_multi")
                                        if last and (is_top or not tail_of_loop):
                                            f.add("break_multi_loop_last")
                                        if last and tailpos:
                                            f.add("break_multi_jobtail")
                                    # (an empty break is a problem in
                                    # job-tail position, see below; or, when
                                    # no job iterates the loop, at the end
                                    # of a sequence: it degenerates to an
                                    # XOR with an empty alternative)
                                    if len(b.items) == 1 and last and \
                                            seqtail:
                                        f.add("empty_break_seqlast")
                    if in_loop:
                        f.add("break_in_nested")
                    if last and tail_of_loop:
                        f.add("break_loop_tail_of_loop")
                        if tailpos:
                            f.add("break_loop_tail_of_loop_jobtail")
                        if tail_chain >= 1:
                            # the enclosing loop is itself the tail of a
                            # loop body (three levels)
                            f.add("break_loop_tail_of_loop_deep")
                        if any(isinstance(x, Fork) and any(
                                len(b.items) == 1
                                and isinstance(b.items[0], Break)
                                for b in x.branches) for x in body):
                            f.add("empty_break_loop_tail_of_loop")
                    if last and tail_via_fork:
                        f.add("break_loop_tail_of_fork_ending_loop")
                if depth > 0 and not in_loop:
                    f.add("loop_in_fork")
                w(it.body, True, False, True, depth, False,
                  tailpos and last, seqtail and last,
                  tail_chain + 1 if (last and tail_of_loop) else 0)
            elif isinstance(it, Fork):
                f.add(it.kind)
                f.add(f"depth{depth + 1}")
                if len(it.branches) >= 3:
                    f.add("fork3")
                if last and not is_top:
                    f.add("bunched_merge")
                if last and is_top:
                    f.add("fork_last_top")
                if i == 0 and is_top:
                    f.add("multi_start")
                for b in it.branches:
                    if b.items and isinstance(b.items[-1], Kill):
                        f.add("kill")
                    w(b, in_loop, False, False, depth + 1,
                      last and (tail_of_loop or tail_via_fork),
                      tailpos and last, True, 0)
    w(ast, False, True, False, 0, False, True)
    names = ps.event_names(ast)
    if any(not (n.startswith("E") and n[1:].isdigit()) for n in names):
        f.add("exotic_names")
    return tuple(sorted(f))


# --------------------------------------------------------------------------
# corpus
# --------------------------------------------------------------------------
def corpus(repo):
    """(relative name, text) of every end-to-end definition without branch
    counts; multiple_same_event_* are upstream's branch-count expectations."""
    root = os.path.join(repo, "end-to-end-pumls")
    out = []
    for p in sorted(glob.glob(os.path.join(root, "**", "*.puml"),
                              recursive=True)):
        with open(p) as fh:
            text = fh.read()
        if "BCNT" in text or os.path.basename(p).startswith(
                "multiple_same_event"):
            continue
        out.append((os.path.relpath(p, root), text))
    return out


# --------------------------------------------------------------------------
# small exhaustive family around loops and breaks
# --------------------------------------------------------------------------
def loop_shapes():
    """Every combination of: prefix event or none; loop at top level / in an
    AND branch / in an XOR branch / as the tail of an enclosing loop body; event after the loop or none; body head
    (event; event + inner loop directly in front of the decision; event +
    inner loop + event; event + AND fork + event; event + XOR fork + event;
    event + AND fork whose two branches end in the same event type);
    break branches with (0), (1), (2), (1,1), (0,1) events or no break at
    all; one or two continuing branches; an event after the decision or
    none.  1320 definitions with distinct names; returned as (tag, ast)."""
    import itertools
    out = []
    heads = ("ev", "loop_adjacent", "loop_sep", "and", "xor", "and_same_end",
             "inner_loop_first")
    breaks = ((), (0,), (1,), (2,), (1, 1), (0, 1))
    for pre, ctx, post, head, brk, cont, tail in itertools.product(
            (1, 0), ("top", "AND", "XOR", "LOOP"), (1, 0), heads, breaks,
            (1, 2), (0, 1)):
        if not brk and cont == 2 and tail == 0 and head == "ev":
            pass
        n = [0]

        def ev():
            n[0] += 1
            return Ev(f"E{n[0]}")
        items = [ev()] if pre else []
        body = [ev()]
        if head == "inner_loop_first" and brk == (0, 1):
            continue        # F-H shape on top of a non-F head: not generated
        if head == "inner_loop_first":
            # nested loops that share their first event (outside F)
            body = [Loop(Seq((ev(), ev()))), ev(), ev()]
        if head == "loop_adjacent":
            body.append(Loop(Seq((ev(),))))
        elif head == "loop_sep":
            body += [Loop(Seq((ev(),))), ev()]
        elif head in ("and", "xor"):
            body += [Fork(head.upper(), (Seq((ev(),)), Seq((ev(),)))), ev()]
        elif head == "and_same_end":
            # both parallel branches finish with the same event type (the
            # only members of the family with a repeated name)
            same = ev()
            body += [Fork("AND", (Seq((ev(), same)), Seq((ev(), same))))]
            if brk:
                body.append(ev())
        if brk:
            branches = [Seq((ev(),)) for _ in range(cont)]
            for k in brk:
                branches.append(Seq(tuple([ev() for _ in range(k)]
                                          + [Break()])))
            body.append(Fork("XOR", tuple(branches)))
            if tail:
                body.append(ev())
        else:
            if head == "loop_adjacent":
                continue            # same as loop_sep without a decision
            if cont == 2 or tail:
                continue            # no decision: one variant is enough
        loop = Loop(Seq(tuple(body)))
        inner = [loop] + ([ev()] if post else [])
        if ctx == "LOOP":
            # the loop is the tail of an enclosing loop's body
            if not pre or not post:
                continue
            items.append(Loop(Seq(tuple([ev(), loop]))))
            items.append(ev())
        elif ctx == "top":
            if not pre and not items:
                items = []
            items += inner
        else:
            if not pre:
                continue            # fork needs an event in front (F)
            other = Seq((ev(),))
            items.append(Fork(ctx, (Seq(tuple([ev()] + inner)), other)))
            items.append(ev())
        tag = f"pre{pre}-{ctx}-post{post}-{head}-brk{brk}-c{cont}-t{tail}"
        out.append((tag, Seq(tuple(items))))
    return out


def fork_shapes():
    """Small exhaustive family around nested forks: outer kind x number of
    outer branches (2, 3) x how the first branch carries an inner fork (none;
    event, inner, event; event, inner = bunched merge; event, inner whose
    first branch holds a third-level XOR) x inner kind x detach on the last
    plain branch (outermost AND/OR only) x event in front (or several start
    events) x event behind (or fork last).  Distinct names throughout."""
    import itertools
    out = []
    for outer, nb, carry, inner, kill, pre, post in itertools.product(
            ("AND", "OR", "XOR"), (2, 3),
            ("none", "mid", "bunched", "deep"), ("AND", "OR", "XOR"),
            (0, 1), (1, 0), (1, 0)):
        if carry == "none" and inner != "AND":
            continue                      # inner kind irrelevant
        if kill and outer == "XOR":
            continue
        if kill and not post:
            continue                      # detach needs a merge to skip
        n = [0]

        def ev():
            n[0] += 1
            return Ev(f"E{n[0]}")
        items = [ev()] if pre else []
        b1 = [ev()]
        if carry != "none":
            ib1 = [ev()]
            if carry == "deep":
                ib1 += [Fork("XOR", (Seq((ev(),)), Seq((ev(),)))), ev()]
            innerf = Fork(inner, (Seq(tuple(ib1)), Seq((ev(),))))
            b1.append(innerf)
            if carry in ("mid", "deep"):
                b1.append(ev())
        branches = [Seq(tuple(b1))]
        for k in range(nb - 1):
            b = [ev()]
            if kill and k == nb - 2:
                b.append(Kill())
            branches.append(Seq(tuple(b)))
        items.append(Fork(outer, tuple(branches)))
        if post:
            items.append(ev())
        tag = (f"{outer}{nb}-{carry}-{inner if carry != 'none' else ''}"
               f"-kill{kill}-pre{pre}-post{post}")
        out.append((tag, Seq(tuple(items))))
    return out


def break_branch_shapes():
    """Exhaustive family for richer break decisions (outside fragment F, in
    which break branches are plain events):  A; repeat{B; XOR{cont | brk
    break}; [E]}; F; [G]  with cont in {event, AND fork, OR fork}, brk in
    {X; X,Y; AND{X|Y},Z; OR{X|Y},Z; loop{X,Y}; X,loop{Y}}, the whole at top
    level or as the body of an outer loop, with or without E and G."""
    import itertools
    out = []
    for cont, brk, nested, tail, post2 in itertools.product(
            ("ev", "AND", "OR"),
            ("x", "xy", "ANDz", "ORz", "loop", "xloop"),
            (0, 1), (0, 1), (0, 1)):
        n = [0]

        def ev():
            n[0] += 1
            return Ev(f"E{n[0]}")
        a = ev()
        b = ev()
        if cont == "ev":
            c = [ev()]
        else:
            c = [Fork(cont, (Seq((ev(),)), Seq((ev(),))))]
            if not tail:
                c.append(ev())      # keep the fork off the end of the body
        if brk == "x":
            br = [ev()]
        elif brk == "xy":
            br = [ev(), ev()]
        elif brk in ("ANDz", "ORz"):
            br = [Fork(brk[:-1], (Seq((ev(),)), Seq((ev(),)))), ev()]
        elif brk == "loop":
            br = [Loop(Seq((ev(), ev())))]
        else:
            br = [ev(), Loop(Seq((ev(),)))]
        body = [b, Fork("XOR", (Seq(tuple(c)), Seq(tuple(br + [Break()]))))]
        if tail:
            body.append(ev())
        inner = [Loop(Seq(tuple(body))), ev()]
        if post2:
            inner.append(ev())
        if nested:
            items = [a, Loop(Seq(tuple([ev()] + inner))), ev()]
        else:
            items = [a] + inner
        out.append((f"cont{cont}-brk{brk}-nested{nested}-tail{tail}-"
                    f"post{post2}", Seq(tuple(items))))
    return out


def deep_loop_fork_shapes():
    """A loop whose body ends in a fork, as the last element of a fork branch
    that is nested in a further fork (the merge event is shared with other
    parallel branches):  A; F1{ P; F2{ Q; repeat{B; F3{C|D}} | R } | S }; Z
    for F1, F2 in {AND, OR}, F3 in {AND, OR, XOR}; and the sibling variant
    A; F1{ P; repeat{B; F3{C|D}} | S; F4{T|U} }; Z  (a sibling branch ends in
    its own fork)."""
    import itertools
    out = []
    for f1, f2, f3 in itertools.product(("AND", "OR"), ("AND", "OR"),
                                        ("AND", "OR", "XOR")):
        n = [0]

        def ev():
            n[0] += 1
            return Ev(f"E{n[0]}")
        lp = Loop(Seq((ev(), Fork(f3, (Seq((ev(),)), Seq((ev(),)))))))
        inner = Fork(f2, (Seq((ev(), lp)), Seq((ev(),))))
        ast = Seq((ev(), Fork(f1, (Seq((ev(), inner)), Seq((ev(),)))), ev()))
        out.append((f"nested-{f1}-{f2}-{f3}", ast))
        n[0] = 0
        lp = Loop(Seq((ev(), Fork(f3, (Seq((ev(),)), Seq((ev(),)))))))
        sib = Fork(f2, (Seq((ev(),)), Seq((ev(),))))
        ast = Seq((ev(), Fork(f1, (Seq((ev(), lp)), Seq((ev(), sib)))), ev()))
        out.append((f"sibling-{f1}-{f2}-{f3}", ast))
    return out


def bunched_fork_shapes():
    """Forks nested *directly* (a branch that starts with a fork - outside
    fragment F, present in the corpus as "bunched" logic):
    A; OUTER{ INNER{B|C} [; X] | D [| E] }; Z  for OUTER != INNER."""
    import itertools
    out = []
    for outer, inner, nalt, tail in itertools.product(
            ("AND", "OR", "XOR"), ("AND", "OR", "XOR"), (2, 3), (0, 1)):
        if outer == inner:
            continue
        n = [0]

        def ev():
            n[0] += 1
            return Ev(f"E{n[0]}")
        a = ev()
        first = [Fork(inner, (Seq((ev(),)), Seq((ev(),))))]
        if tail:
            first.append(ev())
        alts = [Seq(tuple(first))] + [Seq((ev(),)) for _ in range(nalt - 1)]
        out.append((f"{outer}-{inner}-{nalt}-tail{tail}",
                    Seq((a, Fork(outer, tuple(alts)), ev()))))
    return out
