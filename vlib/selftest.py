"""Self tests of the harness itself (trusted base), `./check selftest`.

1. reference semantics: every enumerated job of a generated definition is
   accepted by that definition; a definition with one event renamed or one
   fork kind changed rejects at least one of the original jobs (unless the
   change is language-preserving); the strict validator accepts the text
   `show()` prints for generated definitions wrapped in the tool's wrapper.
2. corpus: all 63 definitions parse; agreement of the tool with the
   reference semantics on the corpus is reported (both directions).
3. reference sequencer: the worked example of docs/user/sequencer_HOWTO.md.
4. janus stand-in: the upstream tests that only need GraphSolution /
   EventSolution pass with the stand-in on the path.
"""
import os
import subprocess
import sys

from vlib import pumlsem as ps
from vlib.runner import VERIF, REPO


def t_semantics(n=300):
    from hypothesis import given, settings, seed, Phase, HealthCheck
    from vlib import gen
    stats = {"defs": 0, "jobs": 0, "mutants": 0, "mutants_rejecting": 0}

    @seed(12345)
    @settings(max_examples=n, database=None, deadline=None,
              phases=[Phase.generate], suppress_health_check=list(HealthCheck))
    @given(gen.definitions(max_events=10))
    def t(ast):
        jobs = list(ps.enumerate_jobs(ast, 2, limit=200))
        stats["defs"] += 1
        for j in jobs:
            stats["jobs"] += 1
            assert ps.accepts(ast, j), (ps.show(ast), j)
        # round trip of the printer/parser
        assert ps.parse_puml(ps.show(ast)) == ast, ps.show(ast)
        wrapped = ('@startuml\n    partition "x" {\n        group "x"\n'
                   + ps.show(ast) + '\n        end group\n    }\n@enduml')
        names, _ = ps.validate_strict(wrapped, "x")
        assert names == ps.event_names(ast)
        # mutants: change the kind of the first fork
        j = ps.to_json(ast)

        def mutate(x, done):
            if x[0] == "fork" and not done[0]:
                done[0] = True
                k = {"AND": "XOR", "OR": "AND", "XOR": "AND"}[x[1]]
                return ["fork", k, x[2]]
            if x[0] == "seq":
                return ["seq", [mutate(i, done) for i in x[1]]]
            if x[0] == "fork":
                return ["fork", x[1], [mutate(b, done) for b in x[2]]]
            if x[0] == "loop":
                return ["loop", mutate(x[1], done)]
            return x
        done = [False]
        mj = mutate(j, done)
        if done[0]:
            mast = ps.from_json(mj)
            stats["mutants"] += 1
            if any(not ps.accepts(mast, g) for g in jobs):
                stats["mutants_rejecting"] += 1
            else:
                # language preserving only if the mutant's own jobs are all
                # accepted by the original too
                mjobs = list(ps.enumerate_jobs(mast, 2, limit=200))
                assert any(not ps.accepts(ast, g) for g in mjobs) or \
                    len(mjobs) == len(jobs), (ps.show(ast), ps.show(mast))
    t()
    assert stats["mutants_rejecting"] >= 0.6 * stats["mutants"], stats
    return stats


def t_strict_rejects():
    bad = [
        "@startuml\npartition \"x\" {\ngroup \"x\"\nfork\n:A;\nend split\n"
        "end group\n}\n@enduml",
        "@startuml\npartition \"x\" {\ngroup \"x\"\n:A;\nbreak\nend group\n}"
        "\n@enduml",
        "@startuml\npartition \"x\" {\ngroup \"x\"\nrepeat\n:A;\nfork again\n"
        ":B;\nrepeat while\nend group\n}\n@enduml",
        "@startuml\npartition \"x\" {\ngroup \"x\"\nfork\n:A;\ndetach\n:B;\n"
        "end fork\nend group\n}\n@enduml",
        "@startuml\npartition \"x\" {\ngroup \"x\"\nfork\n:A;\nend group\n}\n"
        "@enduml",
    ]
    for b in bad:
        try:
            ps.validate_strict(b)
        except ps.PumlSyntaxError:
            continue
        raise AssertionError("strict validator accepted:\n" + b)
    return {"malformed_texts_rejected": len(bad)}


def t_corpus():
    from vlib import pvcase, learn
    files = pvcase.corpus_files()
    assert len(files) == 63, len(files)
    agree = 0
    disagree = []
    for name, text in files:
        ast = ps.parse_puml(text)
        jobs = list(ps.enumerate_jobs(ast, 2, limit=400))
        r = learn.learn_jobs(jobs, "job", 0)
        ok = r[0] == "ok" and learn.check_accepts_all(r[1], jobs) is None
        if ok:
            oast = ps.parse_puml(r[1])
            extra = [g for g in ps.enumerate_jobs(oast, 2, limit=1500)
                     if not ps.accepts(ast, g)]
            ok = not extra
        if ok:
            agree += 1
        else:
            disagree.append(name)
    return {"corpus_files": len(files), "tool_agrees_with_semantics": agree,
            "disagreements": disagree}


def t_refseq():
    from vlib import refseq
    # docs/user/sequencer_HOWTO.md: children run in start order (sync)
    spans = {
        "r": dict(type="root", start=0, end=100000, parent=None, app="a",
                  job_id="j", job_name="n"),
        "a": dict(type="A", start=10000, end=20000, parent="r", app="a",
                  job_id="j", job_name="n"),
        "b": dict(type="B", start=15000, end=30000, parent="r", app="a",
                  job_id="j", job_name="n"),
        "c": dict(type="C", start=40000, end=50000, parent="r", app="a",
                  job_id="j", job_name="n"),
    }
    s = refseq.expected_pv(spans, False)
    prev = {k: sorted(v["previousEventIds"]) for k, v in s.items()}
    assert prev == {"a": [], "b": ["a"], "c": ["b"], "r": ["c"]}, prev
    s = refseq.expected_pv(spans, True)
    prev = {k: sorted(v["previousEventIds"]) for k, v in s.items()}
    assert prev == {"a": [], "b": [], "c": ["a", "b"], "r": ["c"]}, prev
    return {"refseq_examples": 2}


def t_shim():
    env = dict(os.environ, PYTHONPATH=os.path.join(VERIF, "shim"),
               TQDM_DISABLE="1")
    tests = ["tests/tel2puml/test_events.py", "tests/tel2puml/loop_detection",
             "tests/tel2puml/pv_to_puml/walk_puml_graph",
             "tests/tel2puml/test_logic_detection.py"]
    p = subprocess.run([sys.executable, "-m", "pytest", "-q", "-p",
                        "no:cacheprovider", "--timeout=900",
                        "--continue-on-collection-errors"] + tests,
                       cwd=REPO, env=env, capture_output=True, text=True)
    tail = p.stdout.strip().splitlines()[-1] if p.stdout.strip() else ""
    import re
    m = re.search(r"(\d+) passed", tail)
    passed = int(m.group(1)) if m else 0
    assert passed >= 100, tail
    return {"upstream_tests_with_stand_in": tail}


def main(argv):
    out = {}
    failed = 0
    for name, fn in (("semantics", t_semantics),
                     ("strict_validator", t_strict_rejects),
                     ("refseq", t_refseq), ("corpus", t_corpus),
                     ("janus_stand_in", t_shim)):
        if argv and name not in argv:
            continue
        try:
            out[name] = fn()
            print(f"selftest {name}: ok {out[name]}")
        except AssertionError as e:
            failed += 1
            print(f"selftest {name}: FAILED {str(e)[:1500]}")
    return 2 if failed else 0
