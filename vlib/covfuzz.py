"""Coverage-guided stage (atheris / libFuzzer) for the pv2puml checks.

The deciding step is the same as in the Hypothesis stage - a generated case
run against the check's oracle - but the bytes that Hypothesis decodes into a
case come from libFuzzer, which keeps inputs that reach new branches of the
instrumented learner (tel2puml.pv_to_puml.walk_puml_graph, puml_graph,
loop_detection, logic_detection, events).  Run as a child process of a shard:

    python -m vlib.covfuzz <prop> <seed> <runs> <max_len> <out.json>

libFuzzer never returns to Python, so results are written incrementally.
A violation does not stop the campaign: it is recorded (case + message) and
the search goes on behind it; the parent turns the first one per message into
a replay file.  The corpus lives in a private temp dir that the parent removes.
"""
import json
import os
import sys
import time

VERIF = os.path.dirname(os.path.dirname(os.path.abspath(__file__)))


def ensure_atheris():
    from vlib import runner
    try:
        import atheris  # noqa: F401
        return True
    except ImportError:
        pass
    if os.path.isdir(runner.DEPS) and runner.DEPS not in sys.path:
        sys.path.insert(0, runner.DEPS)
    try:
        import atheris  # noqa: F401
        return True
    except ImportError:
        pass
    import subprocess
    os.makedirs(runner.DEPS, exist_ok=True)
    try:
        subprocess.check_call(
            [sys.executable, "-m", "pip", "install", "--quiet", "--no-index",
             "--find-links", runner.WHEELS, "--target", runner.DEPS,
             "atheris"])
    except Exception:
        return False
    if runner.DEPS not in sys.path:
        sys.path.insert(0, runner.DEPS)
    import importlib
    importlib.invalidate_caches()
    try:
        import atheris  # noqa: F401
        return True
    except ImportError:
        return False


def child(argv):
    prop, seed, runs, max_len, out = argv[:5]
    seed, runs, max_len = int(seed), int(runs), int(max_len)
    sys.path.insert(0, VERIF)
    from vlib import runner
    runner.bootstrap()
    if not ensure_atheris():
        with open(out, "w") as f:
            json.dump({"unavailable": True}, f)
        return 0
    import atheris
    with atheris.instrument_imports(include=["tel2puml"]):
        import tel2puml.pv_to_puml.pv_to_puml  # noqa: F401
    from hypothesis import given, settings, HealthCheck
    from vlib.runner import Violation, case_hash
    mod = runner.load_check(prop)
    strat, fn = mod.covfuzz_target()
    state = {"execs": 0, "cases": 0, "distinct": set(), "violations": [],
             "excluded": 0, "t0": time.time(), "invalid": 0}

    def flush():
        with open(out + ".tmp", "w") as f:
            json.dump({"execs": state["execs"], "cases": state["cases"],
                       "distinct": len(state["distinct"]),
                       "violations": state["violations"][:8],
                       "wall_s": time.time() - state["t0"]}, f, default=str)
        os.replace(out + ".tmp", out)

    @settings(database=None, deadline=None,
              suppress_health_check=list(HealthCheck))
    @given(strat)
    def test(case):
        state["cases"] += 1
        state["distinct"].add(case_hash(case))
        try:
            fn(case)
        except Violation as v:
            msg = str(v)
            key = msg[:60]
            if all(x["message"][:60] != key for x in state["violations"]):
                state["violations"].append({"case": case, "message": msg})
                flush()

    fuzz_one = test.hypothesis.fuzz_one_input

    def target(data):
        state["execs"] += 1
        try:
            fuzz_one(data)
        except Exception:
            state["invalid"] += 1
        if state["execs"] % 25 == 0:
            flush()
        if state["execs"] >= runs:
            flush()
            os._exit(0)

    corpus = out + ".corpus"
    os.makedirs(corpus, exist_ok=True)
    # starting corpus: Hypothesis reads the bytes as a choice sequence, tiny
    # libFuzzer inputs are all rejected as "not enough data", so start from
    # pseudo-random buffers (a pure function of the seed) and a zero buffer
    import random
    rng = random.Random(seed)
    for i in range(48):
        n = rng.choice([128, 256, 512, 1024, 2048])
        with open(os.path.join(corpus, f"seed{i}"), "wb") as f:
            f.write(bytes(rng.getrandbits(8) if rng.random() < 0.7 else 0
                          for _ in range(n)))
    with open(os.path.join(corpus, "zeros"), "wb") as f:
        f.write(bytes(512))
    atheris.Setup([sys.argv[0], f"-seed={seed or 1}", f"-runs={runs}",
                   f"-max_len={max_len}", "-print_final_stats=0",
                   "-verbosity=0", corpus], target)
    flush()
    atheris.Fuzz()
    flush()
    return 0


def run_stage(ctx, prop, runs, max_len=2048, timeout=None):
    """Called from a shard: run the child, merge its numbers into ctx.
    Returns True when a violation was recorded."""
    import shutil
    import subprocess
    import tempfile
    from vlib import runner
    tmp = tempfile.mkdtemp(prefix=f"verif-cov-{prop}-")
    out = os.path.join(tmp, "res.json")
    env = dict(os.environ)
    env["PYTHONPATH"] = VERIF + os.pathsep + env.get("PYTHONPATH", "")
    try:
        try:
            subprocess.run(
                [sys.executable, "-m", "vlib.covfuzz", prop,
                 str(runner.derive_seed(prop, ctx.seed, ctx.shard, "cov")
                     % (2**31 - 1) or 1),
                 str(runs), str(max_len), out],
                cwd=VERIF, env=env, stdout=subprocess.DEVNULL,
                stderr=subprocess.DEVNULL,
                timeout=timeout or max(60, ctx.budget_s))
        except subprocess.TimeoutExpired:
            ctx.count("covfuzz_stopped_by_time_budget")
        if not os.path.exists(out):
            ctx.count("covfuzz_no_result")
            return False
        with open(out) as f:
            res = json.load(f)
        if res.get("unavailable"):
            ctx.count("covfuzz_atheris_unavailable")
            return False
        ctx.count("covfuzz_execs", res.get("execs", 0))
        ctx.count("covfuzz_cases_decoded", res.get("cases", 0))
        ctx.count("covfuzz_distinct_cases", res.get("distinct", 0))
        try:
            ctx.count("covfuzz_corpus_files",
                      len(os.listdir(out + ".corpus")))
        except OSError:
            pass
        for v in res.get("violations", [])[:1]:
            ctx.violation(v["case"], "[coverage-guided stage] " + v["message"])
            return True
        return False
    finally:
        shutil.rmtree(tmp, ignore_errors=True)


if __name__ == "__main__":
    sys.exit(child(sys.argv[1:]))
