"""Run the real learner (tel2puml.pv_to_puml) on jobs of the reference
semantics, with the nondeterminism owned by the harness (DESIGN.md 1.3, 2.3).

* `uuid4` in tel2puml.events / logic_detection / walk_puml_graph.node is
  replaced by a deterministic generator seeded per case (schedule seed);
  `datetime` in logic_detection by a frozen clock.
* the walk is run under a *step bound*, not a timeout.
"""
from __future__ import annotations

import hashlib
import random
import uuid as _uuid
from datetime import datetime as _dt

from vlib import pumlsem as ps


class NonTermination(Exception):
    pass


class _Sched:
    def __init__(self):
        self.rng = random.Random(0)

    def reseed(self, seed):
        self.rng = random.Random(seed)

    def uuid4(self):
        return _uuid.UUID(int=self.rng.getrandbits(128), version=4)


SCHED = _Sched()
_STEPS = {"n": 0, "limit": 0}
_installed = False


class _FrozenDT(_dt):
    @classmethod
    def now(cls, tz=None):
        return cls(2024, 1, 1, 0, 0, 0)


def install():
    """Idempotent: patch module-level names in the code under test."""
    global _installed
    if _installed:
        return
    import tel2puml.events as ev
    import tel2puml.logic_detection as ld
    import tel2puml.pv_to_puml.walk_puml_graph.node as nd
    import tel2puml.pv_to_puml.walk_puml_graph.walk_puml_logic_graph as wk
    for m in (ev, ld, nd):
        m.uuid4 = SCHED.uuid4
    ld.datetime = _FrozenDT
    # default argument of create_augmented_data_from_event_sets' helper was
    # evaluated at import; harmless (only used as a timestamp base).

    def wrap(fn):
        def inner(*a, **k):
            _STEPS["n"] += 1
            if _STEPS["limit"] and _STEPS["n"] > _STEPS["limit"]:
                raise NonTermination(
                    f"walk exceeded {_STEPS['limit']} steps")
            return fn(*a, **k)
        inner.__wrapped__ = fn
        return inner
    for name in ("handle_logic_node_cases",
                 "handle_reach_potential_merge_point",
                 "handle_reach_logic_merge_point",
                 "update_puml_graph_with_event_node"):
        setattr(wk, name, wrap(getattr(wk, name)))
    _installed = True


def job_to_pv(job, job_name="job", ids="uuid", rng=None, job_id=None,
              base_ts=0):
    """PVEvent dicts of one reference job.  ids: 'uuid' | 'short' | 'long' | 'local' (event ids 1..n in every job)"""
    rng = rng or SCHED.rng

    def new_id(i):
        if ids == "local" and i >= 0:
            # unique inside the job only: the same ids recur in every job
            return str(i + 1)
        if ids == "short" or ids == "local":
            return str(rng.getrandbits(40))
        if ids == "long":
            return "id-" + hashlib.sha1(
                str(rng.getrandbits(64)).encode()).hexdigest() + f"-{i}"
        return str(_uuid.UUID(int=rng.getrandbits(128), version=4))
    jid = job_id or new_id(-1)
    eids = [new_id(i) for i in range(len(job))]
    out = []
    for i, (t, prev) in enumerate(job):
        sec = base_ts + i
        ts = "2024-01-01T%02d:%02d:%02d.000000Z" % (
            (sec // 3600) % 24, (sec // 60) % 60, sec % 60)
        d = dict(jobId=jid, eventId=eids[i], eventType=t, timestamp=ts,
                 applicationName="app", jobName=job_name)
        if prev:
            d["previousEventIds"] = [eids[p] for p in sorted(prev)]
        out.append(d)
    return out


def learn_pv(pv_jobs, name="job", sched=0, nodes_hint=20, events=None):
    """Returns ('ok', text) | ('exc', 'Class', message) | ('nonterm', msg)."""
    install()
    from tel2puml.pv_to_puml.pv_to_puml import pv_to_puml_string
    SCHED.reseed(sched)
    _STEPS["n"] = 0
    _STEPS["limit"] = 2000 * (nodes_hint + 1)
    try:
        text = pv_to_puml_string(pv_jobs, name, events=events)
    except NonTermination as e:
        return ("nonterm", str(e))
    except RecursionError as e:
        return ("exc", "RecursionError", str(e)[:200])
    except Exception as e:           # the outcome *is* the observation
        import traceback
        tb = traceback.extract_tb(e.__traceback__)
        where = ""
        for fr in reversed(tb):
            if "/tel2puml/" in fr.filename:
                where = f"{fr.filename.split('/tel2puml/')[-1]}:{fr.lineno}"
                break
        return ("exc", type(e).__name__, f"{str(e)[:300]} @ {where}")
    finally:
        _STEPS["limit"] = 0
    return ("ok", text)


def learn_jobs(jobs, name="job", sched=0, ids="uuid"):
    rng = random.Random(sched ^ 0x5EED)
    types = {t for j in jobs for t, _ in j}
    pv = [job_to_pv(j, name, ids=ids, rng=rng) for j in jobs]
    return learn_pv(pv, name, sched, nodes_hint=len(types))


def model_of_events(events):
    """Model of a dict[str, Event] as produced by the code under test, in the
    same normal form as pumlsem.model_of_jobs."""
    out = {}
    for t, e in events.items():
        succ = frozenset(tuple(sorted(es.items()))
                         for es in e.event_sets)
        pred = frozenset(tuple(sorted(es.items()))
                         for es in e.in_event_sets)
        out[t] = (succ, pred)
    return out


def check_accepts_all(text, jobs):
    """Returns None or a message naming the first rejected job."""
    try:
        ast = ps.parse_puml(text)
    except ps.PumlSyntaxError as e:
        return f"emitted text does not parse: {e}"
    for i, j in enumerate(jobs):
        if not ps.accepts(ast, j):
            return (f"input job #{i} is rejected by the emitted diagram: "
                    f"{ps.job_to_json(j)}")
    return None
