"""Runner shared by all checks: sharding, seeding, evidence, replay files,
known findings.  See DESIGN.md section 2.4."""
from __future__ import annotations

import hashlib
import importlib
import json
import os
import shutil
import subprocess
import sys
import tempfile
import time
import traceback
from collections import Counter

VERIF = os.path.dirname(os.path.dirname(os.path.abspath(__file__)))
REPO = os.environ.get("VERIF_REPO", "/repo")
DEPS = os.path.join(VERIF, ".deps")
WHEELS = "/opt/veriftools/wheels"
PROPS = ["C%02d" % i for i in range(1, 17)]


class Violation(Exception):
    """The property is violated by the current case."""


class HarnessError(Exception):
    """Something is wrong with the harness, not with the code under test."""


# --------------------------------------------------------------------------
# environment
# --------------------------------------------------------------------------
def ensure_hypothesis() -> None:
    try:
        import hypothesis  # noqa: F401
        return
    except ImportError:
        pass
    if os.path.isdir(DEPS) and DEPS not in sys.path:
        sys.path.insert(0, DEPS)
    try:
        import hypothesis  # noqa: F401
        return
    except ImportError:
        pass
    os.makedirs(DEPS, exist_ok=True)
    subprocess.check_call(
        [sys.executable, "-m", "pip", "install", "--quiet", "--no-index",
         "--find-links", WHEELS, "--target", DEPS, "hypothesis"])
    if DEPS not in sys.path:
        sys.path.insert(0, DEPS)
    importlib.invalidate_caches()
    import hypothesis  # noqa: F401


def bootstrap() -> None:
    """Put the repository under test and the janus stand-in on sys.path."""
    os.environ.setdefault("TQDM_DISABLE", "1")
    for p in (os.path.join(VERIF, "shim"), REPO):
        if p not in sys.path:
            sys.path.insert(0, p)
    ensure_hypothesis()
    import logging
    logging.disable(logging.CRITICAL)
    import warnings
    warnings.filterwarnings("ignore")


def assert_repo() -> None:
    import tel2puml
    f = os.path.realpath(tel2puml.__file__)
    if not f.startswith(os.path.realpath(REPO) + os.sep):
        raise HarnessError(f"tel2puml imported from {f}, expected {REPO}")


def derive_seed(*parts) -> int:
    h = hashlib.sha256("|".join(str(p) for p in parts).encode()).digest()
    return int.from_bytes(h[:8], "big") >> 1


def case_hash(case) -> str:
    return hashlib.sha1(
        json.dumps(case, sort_keys=True, default=str).encode()
    ).hexdigest()[:16]


# --------------------------------------------------------------------------
# worker side
# --------------------------------------------------------------------------
class Ctx:
    def __init__(self, prop, tier, seed, shard, nshards, budget_s):
        self.prop, self.tier, self.seed = prop, tier, seed
        self.shard, self.nshards = shard, nshards
        self.t0 = time.time()
        self.budget_s = budget_s
        self.evaluations = 0
        self.nontrivial = set()
        self.distinct = set()
        self.classes = Counter()
        self.samples = []
        self.violations = []
        self.excluded = Counter()
        self.extra = Counter()
        self.skipped_time = 0
        self.notes = {}
        self.bulk = {}
        self._quiet = False

    # ---- bookkeeping
    def out_of_time(self) -> bool:
        return time.time() - self.t0 > self.budget_s

    def record(self, case, nontrivial: bool, classes=(), sample=None):
        if self._quiet:
            return
        self.evaluations += 1
        h = case_hash(case)
        self.distinct.add(h)
        if nontrivial:
            new = h not in self.nontrivial
            self.nontrivial.add(h)
            if new and len(self.samples) < 3:
                s = sample if sample is not None else case
                if len(json.dumps(s, default=str)) < 6000:
                    self.samples.append(s)
        for c in classes:
            self.classes[c] += 1

    def count(self, key, n=1):
        if not self._quiet:
            self.extra[key] += n

    def exclude(self, finding_id):
        if not self._quiet:
            self.excluded[finding_id] += 1

    def violation(self, case, message):
        self.violations.append({"case": case, "message": str(message)[:4000]})

    def hyp_seed(self, salt=0) -> int:
        sh = getattr(self, "seed_shard", None)
        return derive_seed(self.prop, self.seed,
                           self.shard if sh is None else sh, salt)

    # ---- hypothesis driver
    def run_given(self, strategy, fn, max_examples, shrinker=None, salt=0):
        """Run fn(case) over `max_examples` cases drawn from `strategy`.
        fn raises Violation when the property fails.  Returns True when a
        violation was found (and recorded)."""
        from hypothesis import given, settings, seed, Phase, HealthCheck
        from hypothesis import errors as herr

        holder = {}
        phases = [Phase.generate]
        if shrinker is None:
            phases.append(Phase.shrink)
        ctx = self

        @seed(self.hyp_seed(salt))
        @settings(max_examples=max_examples, database=None, deadline=None,
                  report_multiple_bugs=False, phases=phases,
                  suppress_health_check=list(HealthCheck))
        @given(strategy)
        def t(case):
            if not holder and ctx.out_of_time():
                ctx.skipped_time += 1
                return
            try:
                fn(case)
            except Violation as v:
                holder["case"], holder["msg"] = case, str(v)
                ctx._quiet = True
                raise

        try:
            t()
        except Violation:
            pass
        except herr.Flaky:
            if not holder:
                raise
        finally:
            self._quiet = False
        if not holder:
            return False
        case, msg = holder["case"], holder["msg"]
        if shrinker is not None:
            self._quiet = True
            try:
                case, msg = greedy_shrink(case, msg, fn, shrinker)
            finally:
                self._quiet = False
        self.violation(case, msg)
        return True

    def dump(self):
        return {
            "evaluations": self.evaluations,
            "distinct": sorted(self.distinct),
            "nontrivial": sorted(self.nontrivial),
            "classes": dict(self.classes),
            "samples": self.samples,
            "violations": self.violations,
            "excluded": dict(self.excluded),
            "extra": dict(self.extra),
            "skipped_time": self.skipped_time,
            "notes": self.notes,
            "bulk": self.bulk,
            "wall_s": time.time() - self.t0,
        }


def greedy_shrink(case, msg, fn, shrinker, max_runs=120):
    """Bounded greedy descent: shrinker(case) yields smaller candidates."""
    runs = 0
    improved = True
    while improved and runs < max_runs:
        improved = False
        for cand in shrinker(case):
            runs += 1
            if runs > max_runs:
                break
            try:
                fn(cand)
            except Violation as v:
                case, msg, improved = cand, str(v), True
                break
            except Exception:
                continue
    return case, msg


def load_check(prop):
    return importlib.import_module("checks." + prop.lower())


def worker_main(args) -> int:
    prop, tier, seed, shard, nshards, budget, out = args
    seed, shard, nshards, budget = int(seed), int(shard), int(nshards), float(budget)
    res = {}
    try:
        bootstrap()
        mod = load_check(prop)
        ctx = Ctx(prop, tier, seed, shard, nshards, budget)
        if shard < 0:
            res["known"] = replay_known(mod, prop)
        else:
            mod.run_shard(ctx)
        res.update(ctx.dump())
    except BaseException:
        res["error"] = traceback.format_exc()
    with open(out, "w") as f:
        json.dump(res, f, default=str)
    return 0


# --------------------------------------------------------------------------
# known findings
# --------------------------------------------------------------------------
def load_known(prop=None):
    path = os.path.join(VERIF, "known_findings.json")
    if not os.path.exists(path):
        return []
    with open(path) as f:
        data = json.load(f)
    out = []
    for e in data.get("findings", []):
        props = e.get("properties") or [e.get("property")]
        if prop is None or prop in props:
            out.append(e)
    return out


def replay_known(mod, prop):
    """Replay every listed finding of this property.  Returns a list of
    {id, status, violates, message}."""
    out = []
    for e in load_known(prop):
        rps = e.get("replay", {})
        rps = rps.get(prop) if isinstance(rps, dict) else rps
        if not rps:
            continue
        what = e["what"]
        if isinstance(what, dict):
            what = what.get(prop) or next(iter(what.values()))
        for rp in (rps if isinstance(rps, list) else [rps]):
            with open(os.path.join(VERIF, rp)) as f:
                doc = json.load(f)
            try:
                msg = mod.replay(doc["case"])
            except Violation as v:
                msg = str(v)
            w = what if rp == (rps[0] if isinstance(rps, list) else rps) \
                else doc.get("what", what)
            out.append({"id": e["id"], "status": e["status"], "what": w,
                        "replay": rp, "violates": msg is not None,
                        "message": msg})
    return out


# --------------------------------------------------------------------------
# parent side
# --------------------------------------------------------------------------
def spawn(prop, tier, seed, shard, nshards, budget, out, hashseed):
    env = dict(os.environ)
    env["PYTHONHASHSEED"] = str(hashseed)
    env["TQDM_DISABLE"] = "1"
    env["VERIF_HASHSEED"] = str(hashseed)
    env.setdefault("OMP_NUM_THREADS", "1")
    env.setdefault("OPENBLAS_NUM_THREADS", "1")
    cmd = [sys.executable, os.path.join(VERIF, "check"), "--worker", prop,
           tier, str(seed), str(shard), str(nshards), str(budget), out]
    return subprocess.Popen(cmd, env=env, cwd=VERIF,
                            stdout=subprocess.DEVNULL,
                            stderr=subprocess.DEVNULL)


def write_replay(prop, case, message, meta):
    os.makedirs(os.path.join(VERIF, "replays"), exist_ok=True)
    name = f"{prop}-{case_hash(case)}.json"
    path = os.path.join(VERIF, "replays", name)
    with open(path, "w") as f:
        json.dump({"property": prop, "message": message, "found": meta,
                   "case": case}, f, indent=1, default=str)
    return os.path.join("replays", name)


def run_check(prop, tier) -> int:
    t0 = time.time()
    seed = int(os.environ.get("VERIF_SEED", "1") or "1")
    bootstrap()
    mod = load_check(prop)
    plan = mod.plan(tier)
    nshards = int(os.environ.get("VERIF_SHARDS", plan.get("shards", 16)))
    budget = float(os.environ.get("VERIF_BUDGET_S", plan.get("budget_s", 600)))
    hashseeds = plan.get("hashseeds") or [0]
    tmp = tempfile.mkdtemp(prefix=f"verif-{prop}-")
    procs = []
    try:
        for i in [-1] + list(range(nshards)):
            out = os.path.join(tmp, f"s{i}.json")
            hs = hashseeds[i % len(hashseeds)] if i >= 0 else 0
            procs.append((i, out, spawn(prop, tier, seed, i, nshards, budget,
                                        out, hs)))
        hard = budget * 2 + 300
        results = {}
        errors = []
        for i, out, p in procs:
            try:
                p.wait(timeout=max(1, hard - (time.time() - t0)))
            except subprocess.TimeoutExpired:
                p.kill()
                errors.append(f"shard {i}: killed after hard limit {hard}s")
                continue
            if not os.path.exists(out):
                errors.append(f"shard {i}: no output (exit {p.returncode})")
                continue
            with open(out) as f:
                results[i] = json.load(f)
            if "error" in results[i]:
                errors.append(f"shard {i}: {results[i]['error']}")
    finally:
        for _, _, p in procs:
            if p.poll() is None:
                p.kill()
        shutil.rmtree(tmp, ignore_errors=True)

    # ---- merge
    ev = 0
    nontrivial, distinct = set(), set()
    classes, excluded, extra = Counter(), Counter(), Counter()
    samples, violations, notes = [], [], {}
    skipped = 0
    for i, r in sorted(results.items()):
        if i < 0:
            continue
        ev += r.get("evaluations", 0)
        nontrivial.update(r.get("nontrivial", []))
        distinct.update(r.get("distinct", []))
        classes.update(r.get("classes", {}))
        excluded.update(r.get("excluded", {}))
        extra.update(r.get("extra", {}))
        skipped += r.get("skipped_time", 0)
        samples.extend(r.get("samples", [])[:2])
        for v in r.get("violations", []):
            v["shard"] = i
            violations.append(v)
        notes.update(r.get("notes", {}))

    # optional cross-shard oracle (e.g. C03: the same cases run under
    # different interpreter hash seeds in different shards)
    if hasattr(mod, "cross_check"):
        try:
            for v in mod.cross_check(
                    {i: r for i, r in results.items() if i >= 0}, hashseeds):
                violations.append(v)
        except Exception:
            errors.append("cross_check: " + traceback.format_exc())
        cross_pairs = getattr(mod.cross_check, "pairs", None)
    else:
        cross_pairs = None
    known = results.get(-1, {}).get("known", [])
    status = 0
    lines = []
    for k in known:
        if k["status"] == "open":
            if k["violates"]:
                lines.append(f"KNOWN-FINDING: property={prop} {k['id']}: {k['what']}")
            else:
                lines.append(f"NOTE: listed finding {k['id']} no longer reproduces")
        elif k["status"] == "fixed" and k["violates"]:
            lines.append(f"VIOLATION property={prop} replay={k['replay']}")
            lines.append(f"  regression of fixed finding {k['id']}: {k['message']}")
            status = 1
    seen_msgs = set()
    for v in violations:
        hs = hashseeds[v["shard"] % len(hashseeds)]
        path = write_replay(prop, v["case"], v["message"],
                            {"tier": tier, "seed": seed, "shard": v["shard"],
                             "hashseed": hs})
        key = v["message"][:60]
        if key in seen_msgs:
            continue
        seen_msgs.add(key)
        lines.append(f"VIOLATION property={prop} replay={path}")
        lines.append("  " + v["message"].replace("\n", "\n  ")[:1500])
        status = 1
    if errors and status == 0:
        status = 2

    samples = samples[:6]
    coverage = {
        "evaluations": ev,
        "distinct_cases": len(distinct),
        "distinct_nontrivial": len(nontrivial),
        "rule": mod.RULE,
        "samples": samples,
        "classes": dict(sorted(classes.items())),
        "excluded_known": dict(excluded),
        "counters": dict(sorted(extra.items())),
        "shards": nshards,
        "skipped_after_time_budget": skipped,
        "known_findings_replayed": [
            {"id": k["id"], "status": k["status"], "violates": k["violates"]}
            for k in known],
    }
    if getattr(mod, "EXHAUSTIVE", None) and tier in mod.EXHAUSTIVE:
        coverage["exhaustive"] = True
    if cross_pairs is not None:
        coverage["cross_process_pairs_compared"] = cross_pairs
    coverage.update(plan.get("coverage", {}))
    coverage.update(notes)
    evidence = {
        "property_id": prop, "tier": tier, "seed": seed,
        "level": getattr(mod, "LEVEL", "exploration"),
        "coverage": coverage,
        "assumptions": list(getattr(mod, "ASSUMPTIONS", [])),
        "wall_s": round(time.time() - t0, 2),
        "violations": len(violations) + sum(
            1 for k in known if k["status"] == "fixed" and k["violates"]),
    }
    if errors:
        evidence["coverage"]["harness_errors"] = [e[:2000] for e in errors]
    os.makedirs(os.path.join(VERIF, "evidence"), exist_ok=True)
    with open(os.path.join(VERIF, "evidence", f"{prop}.json"), "w") as f:
        json.dump(evidence, f, indent=1, default=str)

    for ln in lines:
        print(ln)
    for e in errors:
        print("HARNESS-ERROR:", e[:3000], file=sys.stderr)
    print(f"{prop} {tier} seed={seed}: {ev} cases, {len(nontrivial)} distinct "
          f"non-trivial, {len(violations)} violation(s), "
          f"excluded_known={dict(excluded)}, {evidence['wall_s']}s"
          + (f", {skipped} skipped after time budget" if skipped else ""))
    return status


def run_replay(prop, path) -> int:
    with open(path) as f:
        doc = json.load(f)
    hs = str(doc.get("found", {}).get("hashseed", 0))
    if os.environ.get("PYTHONHASHSEED") != hs:
        env = dict(os.environ, PYTHONHASHSEED=hs, TQDM_DISABLE="1")
        return subprocess.call([sys.executable, os.path.join(VERIF, "check"),
                                prop, "--replay", path], env=env)
    bootstrap()
    mod = load_check(prop)
    try:
        msg = mod.replay(doc["case"])
    except Violation as v:
        msg = str(v)
    if msg is None:
        print(f"{prop} replay {path}: property holds on this case")
        return 0
    print(f"VIOLATION property={prop} replay={path}")
    print("  " + str(msg).replace("\n", "\n  "))
    return 1


def main(argv) -> int:
    if not argv:
        print(__doc__)
        return 2
    if argv[0] == "--worker":
        return worker_main(argv[1:])
    if argv[0] == "setup":
        ensure_hypothesis()
        bootstrap()
        assert_repo()
        from vlib import covfuzz
        print("atheris available:", covfuzz.ensure_atheris())
        print("setup ok")
        return 0
    if argv[0] == "selftest":
        bootstrap()
        from vlib import selftest
        return selftest.main(argv[1:])
    prop = argv[0].upper()
    if prop not in PROPS:
        print("unknown property", prop)
        return 2
    try:
        if len(argv) >= 3 and argv[1] == "--replay":
            return run_replay(prop, argv[2])
        tier = argv[1] if len(argv) > 1 else os.environ.get("VERIF_TIER", "quick")
        if tier not in ("quick", "thorough"):
            print("tier must be quick or thorough")
            return 2
        return run_check(prop, tier)
    except HarnessError as e:
        print("HARNESS-ERROR:", e, file=sys.stderr)
        return 2
    except Exception:
        traceback.print_exc()
        return 2
