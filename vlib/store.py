"""Helpers around the real SQLDataHolder used by C09-C12, C15."""
from __future__ import annotations

import os
import tempfile


def otel_event(sid, parent, typ, job_id, job_name, start, end, app="app",
               children=None):
    from tel2puml.otel_to_pv.otel_to_pv_types import OTelEvent
    return OTelEvent(job_name=job_name, job_id=job_id, event_type=typ,
                     event_id=sid, start_timestamp=start, end_timestamp=end,
                     application_name=app, parent_event_id=parent,
                     child_event_ids=children)


def reset_metadata():
    """find_unique_graphs registers its temporary table in the class level
    metadata; a second call in one process would fail on the duplicate table
    definition.  Global-state reset between cases, not a hook."""
    from tel2puml.otel_to_pv.data_holders.sql_data_holder.data_model import Base
    t = Base.metadata.tables.get("temp_root_nodes")
    if t is not None:
        Base.metadata.remove(t)


def new_holder(batch_size=1000, time_buffer=0, db_uri="sqlite:///:memory:"):
    from tel2puml.otel_to_pv.config import SQLDataHolderConfig
    from tel2puml.otel_to_pv.data_holders import SQLDataHolder
    reset_metadata()
    return SQLDataHolder(SQLDataHolderConfig(
        db_uri=db_uri, batch_size=batch_size, time_buffer=time_buffer))


class ListSource:
    """An OTELDataSource stand-in: iterates a list of OTelEvents."""

    def __init__(self, events):
        self.events = list(events)

    def __iter__(self):
        return iter(self.events)

    def __next__(self):  # pragma: no cover - interface only
        raise StopIteration


def ingest(holder, events):
    from tel2puml.otel_to_pv.ingest_otel_data import IngestData
    IngestData(ListSource(events), holder).load_to_data_holder()


NODE_COLS = ("job_name", "job_id", "event_type", "event_id",
             "start_timestamp", "end_timestamp", "application_name",
             "parent_event_id")


def read_nodes(holder):
    import sqlalchemy as sa
    with holder.engine.connect() as c:
        rows = c.execute(sa.text(
            "select " + ",".join(NODE_COLS) + " from nodes order by id")).fetchall()
    return [dict(zip(NODE_COLS, r)) for r in rows]


def read_assoc(holder):
    import sqlalchemy as sa
    with holder.engine.connect() as c:
        rows = c.execute(sa.text(
            "select parent_id, child_id from NODE_ASSOCIATION")).fetchall()
    return sorted((r[0], r[1]) for r in rows)


def dispose(holder):
    try:
        holder.session.close()
    except Exception:
        pass
    try:
        holder.engine.dispose()
    except Exception:
        pass


class TempDB:
    """A file backed sqlite database in a private temp dir."""

    def __enter__(self):
        self.dir = tempfile.mkdtemp(prefix="verif-db-")
        self.path = os.path.join(self.dir, "store.db")
        self.uri = "sqlite:///" + self.path
        return self

    def __exit__(self, *a):
        import shutil
        shutil.rmtree(self.dir, ignore_errors=True)
