"""Reference sequencer, written from docs/user/sequencer_HOWTO.md and the
statement of C08, independent of tel2puml/otel_to_pv/sequence_otel.py.

A trace is a dict  id -> span, span = dict(type, start, end, parent, app,
job_id, job_name).  Result: dict id -> (event_type, frozenset(previous ids)).
"""
from __future__ import annotations

from datetime import datetime, timedelta


def pv_timestamp(ns: int) -> str:
    """ns -> PV string, rounding to the nearest microsecond like the float
    based production code does for values that are whole microseconds; the
    generators only use whole microseconds so no rounding mode is involved."""
    us, rem = divmod(ns, 1000)
    assert rem == 0, "reference timestamps are whole microseconds"
    d = datetime(1970, 1, 1) + timedelta(microseconds=us)
    return "%04d-%02d-%02dT%02d:%02d:%02d.%06dZ" % (
        d.year, d.month, d.day, d.hour, d.minute, d.second, d.microsecond)


def children_of(spans):
    ch = {i: [] for i in spans}
    for i, s in spans.items():
        if s["parent"] is not None:
            ch[s["parent"]].append(i)
    return ch


def renamed_types(spans, rename_map):
    """rename_map: type -> (mapped_type, set(child types)).  A span whose type
    is a key is renamed iff some child has a listed type."""
    ch = children_of(spans)
    out = {}
    for i, s in spans.items():
        t = s["type"]
        if rename_map and t in rename_map:
            mapped, listed = rename_map[t]
            if any(spans[c]["type"] in listed for c in ch[i]):
                t = mapped
        out[i] = t
    return out


def sibling_groups(spans, types, kids, parent_type, async_flag, group_map):
    """Ordered list of groups (lists of ids) for the children `kids` of a span
    of (renamed) type `parent_type`."""
    gm = (group_map or {}).get(parent_type, {})
    named = {}
    groups = []
    for k in kids:
        t = types[k]
        if t in gm:
            named.setdefault(gm[t], []).append(k)
        else:
            groups.append([k])
    groups.extend(named.values())
    groups = [sorted(g, key=lambda i: spans[i]["start"]) for g in groups]
    groups.sort(key=lambda g: spans[g[0]]["start"])
    if not async_flag:
        return groups
    chains = []
    max_end = None
    for g in groups:
        g_start = spans[g[0]]["start"]
        g_end = max(spans[i]["end"] for i in g)
        if chains and g_start <= max_end:
            chains[-1].extend(g)
            max_end = max(max_end, g_end)
        else:
            chains.append(list(g))
            max_end = g_end if max_end is None else max(max_end, g_end)
    return chains


def sequence(spans, async_flag=False, group_map=None, rename_map=None):
    types = renamed_types(spans, rename_map)
    ch = children_of(spans)
    roots = [i for i, s in spans.items() if s["parent"] is None]
    assert len(roots) == 1
    prev = {}

    def visit(i, inherited):
        cur = inherited
        for g in sibling_groups(spans, types, ch[i], types[i], async_flag,
                                group_map):
            for m in g:
                visit(m, cur)
            cur = frozenset(g)
        prev[i] = cur

    # recursion depth is bounded by tree depth (<= number of spans)
    visit(roots[0], frozenset())
    return {i: (types[i], prev[i]) for i in spans}


def expected_pv(spans, async_flag=False, group_map=None, rename_map=None):
    seq = sequence(spans, async_flag, group_map, rename_map)
    out = {}
    for i, s in spans.items():
        t, p = seq[i]
        out[i] = dict(jobId=s["job_id"], eventId=i, eventType=t,
                      timestamp=pv_timestamp(s["end"]),
                      previousEventIds=p, applicationName=s["app"],
                      jobName=s["job_name"])
    return out
