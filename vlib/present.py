"""Presentations of one job set (C03): permutation of jobs, of the events
inside each job, fresh identifiers of three styles, timestamp shift or
reversal, repetition of a job (as a second instance with fresh ids, or the
very same records again), and the route (in memory, job files, event files
grouped by job id).  All
choices come from one integer drawn by Hypothesis."""
import random

from vlib import learn


def present(jobs, pres_seed, name="job"):
    """Returns (list of PVEvent lists, description dict)."""
    rng = random.Random(pres_seed)
    d = {}
    style = rng.choice(["uuid", "short", "long", "local"])
    d["ids"] = style
    order = list(range(len(jobs)))
    if rng.random() < 0.8:
        rng.shuffle(order)
        d["jobs_permuted"] = order != list(range(len(jobs)))
    dup = []
    if rng.random() < 0.5 and jobs:
        dup = [rng.randrange(len(jobs)) for _ in range(rng.choice([1, 1, 2]))]
        d["repeated_jobs"] = len(dup)
    seq = [jobs[i] for i in order]
    for k in dup:
        seq.insert(rng.randrange(len(seq) + 1), jobs[k])
    shift = rng.choice([0, 0, 3600, 86399])
    reverse_ts = rng.random() < 0.3
    d["ts_shift"], d["ts_reversed"] = shift, reverse_ts
    shuffle_events = rng.random() < 0.7
    d["events_permuted"] = shuffle_events
    out = []
    same_ids = bool(dup) and rng.random() < 0.4
    d["repeat_same_ids"] = same_ids
    made = {}
    for j in seq:
        if same_ids and id(j) in made:
            # the very same job supplied twice: same job id, same event ids
            out.append([dict(e) for e in made[id(j)]])
            continue
        pv = learn.job_to_pv(j, name, ids=style, rng=rng, base_ts=shift)
        if reverse_ts:
            ts = [e["timestamp"] for e in pv][::-1]
            for e, t in zip(pv, ts):
                e["timestamp"] = t
        if shuffle_events:
            rng.shuffle(pv)
            for e in pv:
                if "previousEventIds" in e:
                    rng.shuffle(e["previousEventIds"])
        made[id(j)] = pv
        out.append(pv)
    # route by which the presentation reaches the learner: the in-memory
    # call, one JSON array file per job, or one JSON file per event with
    # grouping by job id (-group-by-job); file order drawn
    d["route"] = rng.choice(["memory", "memory", "memory", "job_files",
                             "event_files"])
    d["route_seed"] = rng.getrandbits(30)
    return out, d
