"""Reference interpreter of the field-mapping semantics documented in
docs/user/json_data_converter_HOWTO.md.  Pure Python, no jq.

mapping: field -> {"key_paths": [...], "key_value": [...]|None,
                   "value_paths": [...]|None, "value_type": "string"}
in exactly the shape the YAML config has.
"""
from __future__ import annotations

import json
import re

ERR = object()      # evaluation error (jq would raise; the query catches it)
REQUIRED = ("job_name", "job_id", "event_type", "event_id",
            "start_timestamp", "end_timestamp", "application_name")


def normalise(spec):
    """-> list of components, each a list of priorities
    (key_path, key_value, value_path)."""
    kps = spec["key_paths"]
    if isinstance(kps, str):
        kps = [kps]
    kvs = spec.get("key_value")
    vps = spec.get("value_paths")
    if isinstance(kvs, str):
        kvs = [kvs]
    if isinstance(vps, str):
        vps = [vps]
    comps = []
    for i, kp in enumerate(kps):
        pr = [kp] if isinstance(kp, str) else list(kp)

        def nth(lst):
            if lst is None:
                return [None] * len(pr)
            v = lst[i]
            if v is None:
                return [None] * len(pr)
            if isinstance(v, str):
                return [v]
            return list(v)
        kv, vp = nth(kvs), nth(vps)
        assert len(kv) == len(pr) == len(vp), "inconsistent mapping"
        comps.append(list(zip(pr, kv, vp)))
    return comps


def array_prefix(key_path, key_value):
    segs = key_path.split(".[].")
    if key_value is not None:
        assert len(segs) >= 2
        return segs[:-2], ".[].".join(segs[-2:])
    return segs[:-1], segs[-1]


def get_path(value, dotted):
    """jq `.a.b.c` on value: null propagates, objects index, anything else
    is an error."""
    if dotted == "":
        return value
    for seg in dotted.split("."):
        if value is None:
            continue
        if isinstance(value, dict):
            value = value.get(seg)
        else:
            return ERR
    return value


def iterate(parent, path):
    """bindings of `(try $parent.path[] catch null)`"""
    v = get_path(parent, path)
    if isinstance(v, list):
        return list(v)
    if isinstance(v, dict):
        return list(v.values())
    return [None]


def lookup(base, rest, key_value, value_path):
    """key/value lookup: `rest` is '<array path>.[].<key name>'."""
    arr_path, key_name = rest.split(".[].")
    arr = get_path(base, arr_path)
    if isinstance(arr, dict):
        arr = list(arr.values())
    if not isinstance(arr, list):
        return None
    obj = {}
    for el in arr:
        k = get_path(el, key_name)
        if k is ERR or k is None or k is False:
            continue
        if not isinstance(k, str):
            return None
        v = get_path(el, value_path)
        if v is ERR:
            return None
        obj[k] = v
    return obj.get(key_value)


def tostring(v):
    if isinstance(v, str):
        return v
    if v is True:
        return "true"
    if isinstance(v, (int, float)):
        return json.dumps(v)
    return json.dumps(v, separators=(",", ":"))


def records(doc, mapping):
    """All flattened records of one document, in document order."""
    fields = {f: normalise(s) for f, s in mapping.items()}
    # trie of array prefixes in first-use order
    order = []          # list of (prefix tuple)
    for comps in fields.values():
        for pr in comps:
            for kp, kv, vp in pr:
                pre, _ = array_prefix(kp, kv)
                for n in range(1, len(pre) + 1):
                    t = tuple(pre[:n])
                    if t not in order:
                        order.append(t)
    # jq nests the bindings in DFS pre-order of the trie (children in
    # first-use order)
    children = {}
    for t in order:
        children.setdefault(t[:-1], []).append(t)
    dfs = []

    def walk(t):
        for c in children.get(t, []):
            dfs.append(c)
            walk(c)
    walk(())

    out = []

    def rec(i, env):
        if i == len(dfs):
            out.append(evaluate(fields, env))
            return
        t = dfs[i]
        for b in iterate(env[t[:-1]], t[-1]):
            env2 = dict(env)
            env2[t] = b
            rec(i + 1, env2)

    rec(0, {(): doc})
    return out


def evaluate(fields, env):
    recd = {}
    for f, comps in fields.items():
        parts = []
        for pr in comps:
            val = None
            for kp, kv, vp in pr:
                pre, rest = array_prefix(kp, kv)
                base = env[tuple(pre)]
                if kv is None:
                    v = get_path(base, rest)
                    if v is ERR:
                        v = None
                else:
                    v = lookup(base, rest, kv, vp)
                if v is not None and v is not False:
                    val = v
                    break
            parts.append(None if val is None else tostring(val))
        recd[f] = None if any(p is None for p in parts) else "_".join(parts)
    return recd


INT_RE = re.compile(r"[+-]?\d+")


def valid_event(recd):
    """The record as the OTelEvent the data source must yield, or None when
    it cannot form a valid span."""
    for f in REQUIRED:
        if recd.get(f) is None:
            return None
    ev = dict(recd)
    for f in ("start_timestamp", "end_timestamp"):
        if not INT_RE.fullmatch(ev[f]):
            return None
        ev[f] = int(ev[f])
    ev.setdefault("parent_event_id", None)
    ev["child_event_ids"] = None
    return ev
