"""Cases shared by the pv2puml checks (C01, C02, C03, C04, C05, C07):
a definition (generated AST or corpus file), a loop bound, an optional subset
selection, a schedule seed.  Everything needed to rebuild the jobs is in the
JSON case, so replay files are self-contained."""
from __future__ import annotations

import os
import random

from hypothesis import strategies as st

from vlib import gen, pumlsem as ps
from vlib.runner import REPO, HarnessError

JOB_CAP = 400          # jobs handed to the learner per case
ENUM_CAP = 1500        # complete-set enumeration cap (above: case skipped)

_corpus_cache = {}


def corpus_files():
    if "files" not in _corpus_cache:
        _corpus_cache["files"] = gen.corpus(REPO)
    return _corpus_cache["files"]


def corpus_ast(name):
    for n, text in corpus_files():
        if n == name:
            return ps.parse_puml(text)
    raise HarnessError(f"corpus file {name} not found")


@st.composite
def cases(draw, subset=None, ks=(1, 2, 3), **defkw):
    """subset: None = drawn (40% subsets), True/False = forced."""
    ast = draw(gen.definitions(**defkw))
    k = draw(st.sampled_from(ks))
    sub = draw(st.integers(0, 9)) < 4 if subset is None else subset
    sched = draw(st.integers(0, 2**31 - 1))
    pick = draw(st.integers(0, 2**31 - 1)) if sub else None
    return {"defn": ps.to_json(ast), "k": k, "pick": pick, "sched": sched}


def case_ast(case):
    if "corpus" in case:
        return corpus_ast(case["corpus"])
    return ps.from_json(case["defn"])


class Materialised:
    __slots__ = ("ast", "jobs", "complete", "all_jobs", "features",
                 "too_large")


def materialise(case) -> Materialised:
    """Jobs of a case.  `pick`: None = complete set; int = seed of a drawn
    non-empty subset; list = explicit indices into the enumeration order."""
    m = Materialised()
    m.ast = case_ast(case)
    m.features = gen.features(m.ast)
    allj = list(ps.enumerate_jobs(m.ast, case["k"], limit=ENUM_CAP + 1))
    m.too_large = len(allj) > ENUM_CAP
    m.all_jobs = allj
    pick = case.get("pick")
    if isinstance(pick, list):
        m.jobs = [allj[i] for i in pick if i < len(allj)]
    elif pick is None:
        m.jobs = allj
    else:
        rng = random.Random(pick)
        n = rng.randint(1, max(1, min(len(allj), JOB_CAP)))
        m.jobs = rng.sample(allj, n) if allj else []
    if len(m.jobs) > JOB_CAP:
        rng = random.Random(case["sched"])
        m.jobs = rng.sample(m.jobs, JOB_CAP)
    m.complete = len(m.jobs) == len(allj) and not m.too_large
    return m


def explicit(case, m):
    """Same case with the subset written out as indices (for shrinking)."""
    idx = {id(j): i for i, j in enumerate(m.all_jobs)}
    c = dict(case)
    c["pick"] = [idx[id(j)] for j in m.jobs]
    return c


# --------------------------------------------------------------------------
# known findings: predicates on the *input* (DESIGN.md section 6)
# --------------------------------------------------------------------------
_open_cache = {}


def _open_findings(prop):
    if prop not in _open_cache:
        from vlib.runner import load_known
        _open_cache[prop] = {e["id"] for e in load_known(prop)
                             if e.get("status") == "open"}
    return _open_cache[prop]


def known_family(case, m, prop=None):
    """Id of a listed open finding whose input predicate this case
    satisfies, or None.  Computed from the definition and the drawn job set
    only - never from what the tool produced.  With `prop`, only findings
    that known_findings.json lists for that property count (a case may
    satisfy several predicates; the first one listed for `prop` is named)."""
    for fam in _families_of(case, m):
        if fam.endswith("#not-jobtail") or fam.endswith("#not-seqlast"):
            fam = fam.split("#")[0]
            if prop == "C01":
                continue
        if fam.endswith("#wide"):
            fam = fam[:-len("#wide")]
            if prop in NARROW_MEASURED_FOR:
                continue
        if fam.endswith("#loop-clause"):
            # clause (b) of F-P only counts for the properties for which a
            # violating replay of that clause is listed
            fam = fam.split("#")[0]
            if prop is not None and prop not in _clause_b_properties():
                continue
        if prop is None or fam in _open_findings(prop):
            return fam
    return None


def _family(case, m):
    fams = _families_of(case, m)
    return fams[0] if fams else None


def _clause_b_properties():
    if "clause_b" not in _open_cache:
        from vlib.runner import load_known
        props = set()
        for e in load_known():
            props.update(e.get("clause_b_properties", []))
        _open_cache["clause_b"] = props
    return _open_cache["clause_b"]


def _families_of(case, m):
    out = []
    if os.path.basename(case.get("corpus", "")) == \
            "kill_with_merge_on_parent.puml":
        out.append("PV-F-D-kill-with-merge-on-parent")
    if os.path.basename(case.get("corpus", "")) == \
            "loop_with_2_breaks_one_leads_to_other_equiv.puml":
        out.append("PV-F-G-corpus-break-target-shared-with-loop-exit")
    f = m.features
    # the loop families need the loop to be *observed*: if no job repeats an
    # event type the directly-follows graph of a definition with distinct
    # names is acyclic and the loop code of the learner never runs
    observed = any(len({t for t, _ in j}) < len(j) for j in m.jobs)
    if not observed and "empty_break_seqlast" in f:
        out.append("PV-F-B0-trailing-loop-empty-break")
    if not observed:
        f = tuple(x for x in f if x not in (
            "break_multi_loop_last", "break_multi_jobtail",
            "break_loop_tail_of_loop", "break_loop_tail_of_loop_jobtail",
            "empty_break_loop_tail_of_loop", "break_loop_tail_of_loop_deep",
            "break_loop_tail_of_fork_ending_loop",
            "empty_break_beside_break", "empty_break_beside_break_seqlast"))
    if "break_multi_jobtail" in f:
        out.append("PV-F-B-trailing-loop-multi-event-break")
    if "empty_break_loop_last" in f:
        out.append("PV-F-B0-trailing-loop-empty-break")
    if "empty_break_beside_break" in f:
        # C01 is only hit when that loop is also the last item of its
        # sequence (24 of the enumerated loop shapes; none otherwise)
        out.append("PV-F-H-empty-break-beside-another-break"
                   + ("" if "empty_break_beside_break_seqlast" in f
                      else "#not-seqlast"))
    if "break_loop_tail_of_loop" in f:
        # C01 is only hit when nothing follows the enclosing loop either
        # (measured: 49/49 there, 0/124 otherwise once F-B is set aside) or
        # when the inner loop's break branch is empty (25 of the enumerated
        # loop shapes, text does not even parse)
        out.append("PV-F-C-break-loop-at-tail-of-loop-body"
                   + ("" if ("break_loop_tail_of_loop_jobtail" in f
                             or "empty_break_loop_tail_of_loop" in f
                             or "break_loop_tail_of_loop_deep" in f)
                      else "#not-jobtail"))
    if "break_loop_tail_of_fork_ending_loop" in f:
        out.append("PV-F-C2-break-loop-ends-fork-branch-ending-loop-body")
    if not m.complete and not m.too_large:
        # "#wide": inside the first, wide statement of the predicate but
        # outside the measured narrow one (a maximal successor/predecessor
        # set never shown although part of it is, or a loop-back step never
        # shown); only counts for the properties the narrow statement was
        # not measured for
        narrow = narrow_partial_view(m.all_jobs, m.jobs, m.ast)
        if partial_fork_or_join(m.all_jobs, m.jobs, (), m.ast):
            out.append("PV-F-P-subset-shows-fork-join-or-loop-partly"
                       + ("" if narrow else "#wide"))
        elif partial_fork_or_join(m.all_jobs, m.jobs,
                                  loop_event_names(m.ast), m.ast):
            out.append("PV-F-P-subset-shows-fork-join-or-loop-partly"
                       "#loop-clause" + ("" if narrow else "#wide"))
    return out


# The narrow statement is NOT used by default: the first quick run on a calm
# machine found a violating case inside the wide statement and outside the
# narrow one (OR{E2 OR{E4 | E5} E6 kill | E7 | E8} E9 seen as three of its 15
# jobs; DESIGN section 12).  VERIF_FP_NARROW=1 switches it on for
# measurement runs only.
NARROW_MEASURED_FOR = ("C01", "C05", "C07") \
    if os.environ.get("VERIF_FP_NARROW") else ()


def _job_edges(jobs):
    out = set()
    for j in jobs:
        for t, prev in j:
            for p in prev:
                out.add((j[p][0], t))
    return out


def narrow_partial_view(all_jobs, jobs, ast):
    """The measured core of F-P (1957 drawn subset cases inside the wide
    predicate, 47 of them violating C01/C05, every one of them in here, 1318
    passing ones outside): (1) for some event type (or the job start) a
    *maximal* set of its complete successor or predecessor family with >=2
    events is never observed although some subset of it is - for plain
    forks outside loops the finer clique rule is used instead; or (2) some
    step from an event of a loop body back to the first event of that body
    is never observed although the definition has it (the alternative then
    looks like a break path)."""
    cs, cp = _families(all_jobs)
    ss, sp = _families(jobs)
    after, before = plain_fork_neighbours(ast)
    loopn = loop_event_names(ast)
    for sub, comp, plain in ((ss, cs, after), (sp, cp, before)):
        for t, s in sub.items():
            c = comp.get(t, set())
            if s == c or not any(len(x) >= 2 for x in c):
                continue
            for mx in [x for x in c if len(x) >= 2
                       and not any(x < y for y in c)]:
                under = [x for x in s if x <= mx]
                if not under:
                    continue
                if t in plain and t not in loopn:
                    if len(mx) <= 3:
                        if _unobserved_clique(under):
                            return True
                    elif frozenset().union(*under) not in s:
                        return True
                elif mx not in s:
                    return True
    missing = _job_edges(all_jobs) - _job_edges(jobs)
    if missing:
        for n in ps.walk(ast):
            if isinstance(n, ps.Loop) and n.body.items and \
                    isinstance(n.body.items[0], ps.Ev):
                body = set(ps.event_names(n.body))
                head = n.body.items[0].name
                if any(a in body and b == head for a, b in missing):
                    return True
    return False


def _families(jobs):
    """per event type: (family of successor sets, family of predecessor
    sets); the job start is the pseudo type |||START||| whose successor sets
    are the sets of start events."""
    succ, pred = {}, {}
    for job in jobs:
        out = {i: set() for i in range(len(job))}
        starts = set()
        for i, (t, prev) in enumerate(job):
            succ.setdefault(t, set())
            pred.setdefault(t, set())
            if prev:
                pred[t].add(frozenset(job[p][0] for p in prev))
                for p in prev:
                    out[p].add(t)
            else:
                starts.add(t)
        for i, (t, _) in enumerate(job):
            if out[i]:
                succ[t].add(frozenset(out[i]))
        succ.setdefault("|||START|||", set()).add(frozenset(starts))
    return succ, pred


def loop_event_names(ast):
    out = set()
    for n in ps.walk(ast):
        if isinstance(n, ps.Loop):
            out.update(ps.event_names(n.body))
    return out


def _unobserved_clique(sets):
    """some group of events that pairwise co-occur in the given sets is
    contained in none of them (<= 3 events per set, so brute force)"""
    import itertools
    items = sorted(set().union(*sets))
    pairs = {frozenset(p) for x in sets
             for p in itertools.combinations(sorted(x), 2)}
    for r in range(3, len(items) + 1):
        for grp in itertools.combinations(items, r):
            if all(frozenset(p) in pairs
                   for p in itertools.combinations(grp, 2)) and \
                    not any(set(grp) <= x for x in sets):
                return True
    return False


def plain_fork_neighbours(ast):
    """(events directly in front of, events directly behind) an AND/OR fork
    all of whose branches are plain event sequences and which has an event on
    both sides (|||START||| counts in front when the fork opens the job)."""
    after, before = set(), set()

    def plain(f):
        return f.kind in ("AND", "OR") and all(
            all(isinstance(x, ps.Ev) for x in b.items) for b in f.branches)

    def w(seq, top):
        items = seq.items
        for i, it in enumerate(items):
            if isinstance(it, ps.Fork):
                if plain(it):
                    prev = items[i - 1].name if i > 0 and isinstance(
                        items[i - 1], ps.Ev) else (
                        "|||START|||" if (top and i == 0) else None)
                    nxt = items[i + 1].name if i + 1 < len(items) and \
                        isinstance(items[i + 1], ps.Ev) else None
                    if prev and nxt:
                        after.add(prev)
                        before.add(nxt)
                for b in it.branches:
                    w(b, False)
            elif isinstance(it, ps.Loop):
                w(it.body, False)
    w(ast, True)
    return after, before


def partial_fork_or_join(all_jobs, jobs, in_loop=(), ast=None):
    """F-P: the job subset shows only part of the family of successor sets
    of an AND/OR fork (an event type - or the job start - that has, in the
    complete model of the definition, a successor set of >=2 events) or only
    part of the family of predecessor sets of a join (a predecessor set of
    >=2 events).  Gate inference then nests the branches differently from
    the definition, and the walk validates merges against the observed
    predecessor sets only.  The same holds for event types inside a loop
    body (`in_loop`): a body alternative that is never seen to be followed
    by another iteration looks like a break path to the learner."""
    cs, cp = _families(all_jobs)
    ss, sp = _families(jobs)
    after, before = plain_fork_neighbours(ast) if ast is not None \
        else (set(), set())
    for sub, comp, plain in ((ss, cs, after), (sp, cp, before)):
        for t, s in sub.items():
            c = comp.get(t, set())
            if s == c:
                continue
            if t in in_loop:
                return True
            if not any(len(x) >= 2 for x in c):
                continue
            # a partly shown *plain* fork (branches are event sequences,
            # events on both sides) is handled as long as the observed sets
            # under each maximal set contain their own union; measured: 0 of
            # 762 such cases fail C01/C07 on the unchanged tree
            if t not in plain:
                return True
            for mx in [x for x in c if len(x) >= 2
                       and not any(x < y for y in c)]:
                under = [x for x in s if x <= mx]
                if not under:
                    continue
                if len(mx) <= 3:
                    # up to three branches the failing views are exactly
                    # those in which events co-occur pairwise without the
                    # whole group ever being seen together (enumerated:
                    # 8 of 126 views of a three-branch OR, all of this kind)
                    if _unobserved_clique(under):
                        return True
                elif frozenset().union(*under) not in s:
                    return True
    return False


# --------------------------------------------------------------------------
# structural shrinking of definitions (quick tier)
# --------------------------------------------------------------------------
def _shrink_ast(j):
    """Yield smaller JSON ASTs."""
    t = j[0]
    if t == "seq":
        items = j[1]
        for i in range(len(items)):
            if len(items) > 1:
                yield ["seq", items[:i] + items[i + 1:]]
        for i, it in enumerate(items):
            if it[0] == "fork":
                for b in it[2]:
                    yield ["seq", items[:i] + b[1] + items[i + 1:]]
                if len(it[2]) > 2:
                    for bi in range(len(it[2])):
                        yield ["seq", items[:i] + [["fork", it[1],
                               it[2][:bi] + it[2][bi + 1:]]] + items[i + 1:]]
            if it[0] == "loop":
                yield ["seq", items[:i] + it[1][1] + items[i + 1:]]
            for sub in _shrink_ast(it):
                yield ["seq", items[:i] + [sub] + items[i + 1:]]
    elif t == "fork":
        for bi, b in enumerate(j[2]):
            for sub in _shrink_ast(b):
                yield ["fork", j[1], j[2][:bi] + [sub] + j[2][bi + 1:]]
    elif t == "loop":
        for sub in _shrink_ast(j[1]):
            yield ["loop", sub]


def _valid(j, in_loop=False, top=True):
    """Keep shrunk ASTs inside the fragment: sequences non-empty, a break
    only inside a loop, kill/break last in their sequence."""
    t = j[0]
    if t == "seq":
        if not j[1]:
            return False
        if not top and j[1][0][0] != "ev" and not (
                in_loop and len(j[1]) == 1 and j[1][0][0] == "break"):
            return False      # fragment F: a sequence begins with an event
        for i, it in enumerate(j[1]):
            if it[0] in ("break", "kill") and i != len(j[1]) - 1:
                return False
            if it[0] == "break" and not in_loop:
                return False
            if not _valid(it, in_loop, False):
                return False
        if all(it[0] in ("break", "kill") for it in j[1]) and not (
                in_loop and len(j[1]) == 1 and j[1][0][0] == "break"):
            return False
        return True
    if t == "fork":
        return len(j[2]) >= 2 and all(_valid(b, in_loop, False) for b in j[2])
    if t == "loop":
        return _valid(j[1], True, False)
    return True


def shrinker(case):
    if "defn" in case:
        for cand in _shrink_ast(case["defn"]):
            if _valid(cand):
                c = dict(case, defn=cand)
                if isinstance(c.get("pick"), list):
                    c["pick"] = None if False else c["pick"]
                yield c
    if case.get("k", 1) > 1:
        yield dict(case, k=case["k"] - 1)
    pick = case.get("pick")
    if isinstance(pick, list) and len(pick) > 1:
        half = len(pick) // 2
        yield dict(case, pick=pick[:half])
        yield dict(case, pick=pick[half:])
        for i in range(min(len(pick), 12)):
            yield dict(case, pick=pick[:i] + pick[i + 1:])
    if case.get("sched", 0) > 3:
        yield dict(case, sched=case["sched"] % 4)


def case_classes(case, m):
    cl = list(m.features)
    cl.append(f"k={case['k']}")
    cl.append("complete" if m.complete else "subset")
    cl.append("corpus" if "corpus" in case else "generated")
    return cl


def loop_shape_cases(seed, shard, nshards, k=2):
    """The exhaustive loop/break family of gen.loop_shapes() as cases
    (complete sets), the slice of one shard."""
    for i, (tag, ast) in enumerate(gen.loop_shapes()):
        if i % nshards != shard:
            continue
        yield tag, {"defn": ps.to_json(ast), "k": k, "pick": None,
                    "sched": seed * 1000 + i}


def partial_or_cases(shard, nshards, tier):
    """Exhaustive family of partial views of a plain OR fork: every proper
    non-empty subset of the jobs of  S; OR{A|B|C}; Z  and three variants (two
    branches; a two-event branch and a longer tail; the fork opening the
    job), in the thorough tier also 600 seeded subsets of the four-branch
    fork.  Views that fall under the F-P predicate are excluded by the
    caller as usual."""
    import itertools
    from vlib.pumlsem import Seq, Ev, Fork

    def S(*a):
        return Seq(tuple(a))

    def OR(*names):
        return Fork("OR", tuple(S(*[Ev(x) for x in n.split()])
                                for n in names))
    defs = [("or3", S(Ev("S"), OR("A", "B", "C"), Ev("Z"))),
            ("or2", S(Ev("S"), OR("A", "B"), Ev("Z"))),
            ("or3_long", S(Ev("S"), OR("A A2", "B", "C"), Ev("Z"), Ev("Y"))),
            ("or3_start", S(OR("A", "B", "C"), Ev("Z")))]
    if tier == "thorough":
        defs.append(("or4", S(Ev("S"), OR("A", "B", "C", "D"), Ev("Z"))))
    idx = 0
    for name, ast in defs:
        n = len(list(ps.enumerate_jobs(ast, 1)))
        subsets = [c for r in range(1, n)
                   for c in itertools.combinations(range(n), r)]
        if len(subsets) > 600:
            random.Random(1).shuffle(subsets)
            subsets = subsets[:600]
        for sub in subsets:
            idx += 1
            if idx % nshards != shard:
                continue
            yield name, {"defn": ps.to_json(ast), "k": 1, "pick": list(sub),
                         "sched": idx}


def fork_shape_cases(seed, shard, nshards):
    """The exhaustive nested-fork family of gen.fork_shapes() (complete
    sets), the slice of one shard."""
    for i, (tag, ast) in enumerate(gen.fork_shapes()):
        if i % nshards != shard:
            continue
        yield tag, {"defn": ps.to_json(ast), "k": 1, "pick": None,
                    "sched": seed * 1000 + i}


def break_branch_cases(seed, shard, nshards, fork_continuations):
    """gen.break_branch_shapes() as cases (complete sets, k=2).  With
    fork_continuations=False only the members whose continuing branch is a
    plain event: a switch whose other branch *starts* with a fork is emitted
    as a one-case switch followed by the fork, which the reference semantics
    reads as "always break" (outside fragment F, not judged by C01/C02/C05;
    loop extraction is fine on all of them, so C07 runs the whole family)."""
    for i, (tag, ast) in enumerate(gen.break_branch_shapes()):
        if not fork_continuations and not tag.startswith("contev"):
            continue
        if i % nshards != shard:
            continue
        yield tag, {"defn": ps.to_json(ast), "k": 2, "pick": None,
                    "sched": seed * 1000 + i}
