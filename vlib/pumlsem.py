"""Reference semantics of the PV activity-diagram dialect (DESIGN.md 2.1).

AST (plain hashable dataclasses), a lenient parser for the corpus dialect and
the dialect emitted by tel2puml, a strict validator of the emitted dialect
(C05), an enumerator of all maximal executions with bounded loop counts and a
backtracking acceptor guided by a job.  Nothing here imports tel2puml.

A *job* is a tuple of (event_type, frozenset(predecessor indices)); indices
refer to positions in the tuple and predecessors always have smaller indices
in enumerated jobs (acceptor does not rely on that).
"""
from __future__ import annotations

import itertools
import re
from dataclasses import dataclass
from typing import Iterator, Optional


# --------------------------------------------------------------------------
# AST
# --------------------------------------------------------------------------
@dataclass(frozen=True)
class Ev:
    name: str


@dataclass(frozen=True)
class Fork:
    kind: str            # AND / OR / XOR
    branches: tuple      # tuple[Seq]


@dataclass(frozen=True)
class Loop:
    body: "Seq"


@dataclass(frozen=True)
class Break:
    pass


@dataclass(frozen=True)
class Kill:
    pass


@dataclass(frozen=True)
class Seq:
    items: tuple


def to_json(n):
    if isinstance(n, Seq):
        return ["seq", [to_json(i) for i in n.items]]
    if isinstance(n, Ev):
        return ["ev", n.name]
    if isinstance(n, Fork):
        return ["fork", n.kind, [to_json(b) for b in n.branches]]
    if isinstance(n, Loop):
        return ["loop", to_json(n.body)]
    if isinstance(n, Break):
        return ["break"]
    if isinstance(n, Kill):
        return ["kill"]
    raise TypeError(n)


def from_json(j):
    t = j[0]
    if t == "seq":
        return Seq(tuple(from_json(i) for i in j[1]))
    if t == "ev":
        return Ev(j[1])
    if t == "fork":
        return Fork(j[1], tuple(from_json(b) for b in j[2]))
    if t == "loop":
        return Loop(from_json(j[1]))
    if t == "break":
        return Break()
    if t == "kill":
        return Kill()
    raise ValueError(j)


def show(n, ind=0) -> str:
    """PlantUML-like text of an AST (what upstream's corpus looks like)."""
    p = " " * ind
    if isinstance(n, Seq):
        return "\n".join(show(i, ind) for i in n.items)
    if isinstance(n, Ev):
        return f"{p}:{n.name};"
    if isinstance(n, Break):
        return f"{p}break"
    if isinstance(n, Kill):
        return f"{p}detach"
    if isinstance(n, Loop):
        return f"{p}repeat\n{show(n.body, ind + 2)}\n{p}repeat while"
    if isinstance(n, Fork):
        if n.kind == "XOR":
            out = [p + "switch (XOR)"]
            for b in n.branches:
                out.append(p + '  case ("")')
                out.append(show(b, ind + 4))
            out.append(p + "endswitch")
            return "\n".join(out)
        kw = {"AND": ("fork", "fork again", "end fork"),
              "OR": ("split", "split again", "end split")}[n.kind]
        out = [p + kw[0]]
        for i, b in enumerate(n.branches):
            if i:
                out.append(p + kw[1])
            out.append(show(b, ind + 2))
        out.append(p + kw[2])
        return "\n".join(out)
    raise TypeError(n)


def event_names(n) -> list:
    if isinstance(n, Ev):
        return [n.name]
    if isinstance(n, Seq):
        return [x for i in n.items for x in event_names(i)]
    if isinstance(n, Fork):
        return [x for b in n.branches for x in event_names(b)]
    if isinstance(n, Loop):
        return event_names(n.body)
    return []


def walk(n):
    yield n
    if isinstance(n, Seq):
        for i in n.items:
            yield from walk(i)
    elif isinstance(n, Fork):
        for b in n.branches:
            yield from walk(b)
    elif isinstance(n, Loop):
        yield from walk(n.body)


# --------------------------------------------------------------------------
# lenient parser
# --------------------------------------------------------------------------
class PumlSyntaxError(Exception):
    pass


EV_RE = re.compile(r"^(#\w+)?:(.*);$")


def _is(line, kw):
    return line == kw or line.startswith(kw + " ") or line.startswith(kw + "(")


def parse_puml(text: str) -> Seq:
    """Lenient parser for corpus + emitted dialect.  Wrapper lines are
    ignored, colour prefixes and ',BCNT...' suffixes are dropped."""
    lines = []
    for raw in text.splitlines():
        s = raw.strip()
        if not s or s.startswith("'"):
            continue
        lines.append(s)
    body = [l for l in lines if not (
        l.startswith("@startuml") or l.startswith("@enduml")
        or l.startswith("partition") or l == "}" or l.startswith("group")
        or l == "end group")]
    pos = 0

    def parse_seq(terminators) -> Seq:
        nonlocal pos
        items = []
        while pos < len(body):
            l = body[pos]
            if any(_is(l, t) for t in terminators):
                return Seq(tuple(items))
            pos += 1
            m = EV_RE.match(l)
            if m:
                name = m.group(2).split(",")[0].strip()
                items.append(Ev(name))
            elif l == "break":
                items.append(Break())
            elif l in ("kill", "detach"):
                items.append(Kill())
            elif l == "fork":
                items.append(parse_fork("AND", "fork again", "end fork"))
            elif l == "split":
                items.append(parse_fork("OR", "split again", "end split"))
            elif _is(l, "switch"):
                if pos >= len(body) or not _is(body[pos], "case"):
                    raise PumlSyntaxError("switch without case")
                pos += 1
                items.append(parse_fork("XOR", "case", "endswitch"))
            elif _is(l, "if"):
                items.append(parse_if())
            elif l == "repeat":
                b = parse_seq(("repeat while",))
                if pos >= len(body):
                    raise PumlSyntaxError("unterminated repeat")
                pos += 1
                items.append(Loop(b))
            else:
                raise PumlSyntaxError(f"unexpected line {l!r}")
        if terminators:
            raise PumlSyntaxError(f"missing terminator {terminators}")
        return Seq(tuple(items))

    def parse_fork(kind, sep, end):
        nonlocal pos
        branches = []
        while True:
            b = parse_seq((sep, end))
            branches.append(b)
            if pos >= len(body):
                raise PumlSyntaxError(f"missing {end}")
            l = body[pos]
            pos += 1
            if _is(l, sep):
                continue
            return Fork(kind, tuple(branches))

    def parse_if():
        nonlocal pos
        branches = []
        while True:
            b = parse_seq(("elseif", "else", "endif"))
            branches.append(b)
            if pos >= len(body):
                raise PumlSyntaxError("missing endif")
            l = body[pos]
            pos += 1
            if _is(l, "elseif") or _is(l, "else"):
                continue
            return Fork("XOR", tuple(branches))

    return parse_seq(())


# --------------------------------------------------------------------------
# strict validator of the emitted dialect (C05)
# --------------------------------------------------------------------------
BLOCKS = {
    "fork": ("fork again", "end fork"),
    "split": ("split again", "end split"),
    "switch": ("case", "endswitch"),
    "repeat": (None, "repeat while"),
    "if": ("else", "endif"),
}


def validate_strict(text: str, name: Optional[str] = None):
    """Unforgiving check of the emitted text.  Returns (names, stats) where
    names is the list of event names in order of appearance; raises
    PumlSyntaxError naming the first offending line otherwise.

    Demanded: exact wrapper; stack discipline (a separator only directly
    inside its own open block, a block closed by its own terminator only);
    `break` only as last statement of a sequence lying inside a repeat;
    `detach`/`kill` only as last statement of a sequence; nothing after
    break/detach in the same sequence; every other line `:<name>;`.
    """
    raw = text.split("\n")
    if raw and raw[-1] == "":
        raw = raw[:-1]
    lines = [l.strip() for l in raw]
    if any(l == "" for l in lines):
        raise PumlSyntaxError("empty line")
    if len(lines) < 6:
        raise PumlSyntaxError("too short to hold the wrapper")
    if lines[0] != "@startuml":
        raise PumlSyntaxError(f"line 1 is {lines[0]!r}, expected @startuml")
    m = re.fullmatch(r'partition "(.*)" \{', lines[1])
    if not m:
        raise PumlSyntaxError(f"line 2 is {lines[1]!r}, expected partition")
    m2 = re.fullmatch(r'group "(.*)"', lines[2])
    if not m2:
        raise PumlSyntaxError(f"line 3 is {lines[2]!r}, expected group")
    if name is not None and (m.group(1) != name or m2.group(1) != name):
        raise PumlSyntaxError("partition/group name differs from job name")
    if lines[-3:] != ["end group", "}", "@enduml"]:
        raise PumlSyntaxError(f"wrapper tail is {lines[-3:]!r}")
    body = lines[3:-3]
    names = []
    stats = {"blocks": 0, "empty_branches": 0, "single_branch_blocks": 0,
             "max_depth": 0}
    # stack entries: [kind, statements_in_current_seq, closed(bool), branches]
    stack = [["top", 0, False, 1]]
    for no, l in enumerate(body, start=4):
        top = stack[-1]

        def stmt():
            if top[2]:
                raise PumlSyntaxError(
                    f"line {no}: {l!r} follows break/detach in the same "
                    "sequence")
            top[1] += 1

        if l == "fork" or l == "split" or l == "repeat":
            stmt()
            stack.append([l, 0, False, 1])
            stats["blocks"] += 1
        elif _is(l, "switch"):
            stmt()
            stack.append(["switch", -1, False, 0])   # -1: awaiting first case
            stats["blocks"] += 1
        elif _is(l, "if"):
            stmt()
            stack.append(["if", 0, False, 1])
            stats["blocks"] += 1
        elif l in ("fork again", "split again") or _is(l, "case") or \
                _is(l, "else") or _is(l, "elseif"):
            want = {"fork again": "fork", "split again": "split"}.get(
                l, "switch" if _is(l, "case") else "if")
            if top[0] != want:
                raise PumlSyntaxError(
                    f"line {no}: separator {l!r} inside {top[0]!r}")
            if top[1] == 0:
                stats["empty_branches"] += 1
            top[1], top[2] = 0, False
            top[3] += 1
        elif l in ("end fork", "end split", "endswitch", "endif") or \
                _is(l, "repeat while"):
            want = {"end fork": "fork", "end split": "split",
                    "endswitch": "switch", "endif": "if"}.get(l, "repeat")
            if top[0] != want:
                raise PumlSyntaxError(
                    f"line {no}: terminator {l!r} closes {top[0]!r}")
            if top[1] == -1:
                raise PumlSyntaxError(f"line {no}: switch without case")
            if top[1] == 0:
                stats["empty_branches"] += 1
            if want != "repeat" and top[3] < 2:
                stats["single_branch_blocks"] += 1
            stack.pop()
        elif l == "break":
            if top[1] == -1:
                raise PumlSyntaxError(f"line {no}: statement before case")
            if not any(s[0] == "repeat" for s in stack):
                raise PumlSyntaxError(f"line {no}: break outside repeat")
            stmt()
            top[2] = True
        elif l in ("detach", "kill"):
            if top[1] == -1:
                raise PumlSyntaxError(f"line {no}: statement before case")
            stmt()
            top[2] = True
        else:
            mm = re.fullmatch(r":(.*);", l)
            if not mm:
                raise PumlSyntaxError(f"line {no}: unrecognised {l!r}")
            if top[1] == -1:
                raise PumlSyntaxError(f"line {no}: statement before case")
            stmt()
            names.append(mm.group(1))
        stats["max_depth"] = max(stats["max_depth"], len(stack) - 1)
    if len(stack) != 1:
        raise PumlSyntaxError(
            "unterminated block(s): " + ", ".join(s[0] for s in stack[1:]))
    return names, stats


# --------------------------------------------------------------------------
# execution semantics
# --------------------------------------------------------------------------
# state: tuple of (type, frozenset(prev ids)); id = index in the tuple
# frontier: None = dead; frozenset of ids (empty = job start)
def _subsets(kind, n):
    idx = range(n)
    if kind == "AND":
        return [tuple(idx)]
    return [c for r in range(1, n + 1) for c in itertools.combinations(idx, r)]


def _exec(n, st: tuple, fr, k: int) -> Iterator[tuple]:
    """yield (state, normal_frontier|None, break_frontier)"""
    if isinstance(n, Ev):
        yield st + ((n.name, fr),), frozenset([len(st)]), frozenset()
    elif isinstance(n, Break):
        yield st, None, fr
    elif isinstance(n, Kill):
        yield st, None, frozenset()
    elif isinstance(n, Seq):
        def go(i, st, fr, br):
            if i == len(n.items) or fr is None:
                yield st, fr, br
                return
            for st2, fr2, br2 in _exec(n.items[i], st, fr, k):
                yield from go(i + 1, st2, fr2, br | br2)
        yield from go(0, st, fr, frozenset())
    elif isinstance(n, Fork):
        if n.kind == "XOR":
            for b in n.branches:
                yield from _exec(b, st, fr, k)
        else:
            for sub in _subsets(n.kind, len(n.branches)):
                def go(j, st, out, br, alive, sub=sub):
                    if j == len(sub):
                        yield st, (out if alive else None), br
                        return
                    for st2, fr2, br2 in _exec(n.branches[sub[j]], st, fr, k):
                        yield from go(j + 1, st2, out | (fr2 or frozenset()),
                                      br | br2, alive or fr2 is not None)
                yield from go(0, st, frozenset(), frozenset(), False)
    elif isinstance(n, Loop):
        def it(i, st, fr, exits):
            for st2, fr2, br2 in _exec(n.body, st, fr, k):
                ex = exits | br2
                if fr2 is None:
                    yield st2, (ex if ex else None), frozenset()
                else:
                    yield st2, ex | fr2, frozenset()
                    if i + 1 < k:
                        yield from it(i + 1, st2, fr2, ex)
        yield from it(0, st, fr, frozenset())
    else:
        raise TypeError(n)


def canon(st: tuple, intern=None):
    """Canonical key of a job: multiset of recursive predecessor signatures.
    Signatures are interned to small integers (`intern`, shared between the
    jobs that are to be compared) so that the key stays linear in the job
    size even when joins nest (a plain nested tuple unfolds the DAG into a
    tree and grows exponentially)."""
    if intern is None:
        intern = {}
    sig = {}

    def s(i):
        if i not in sig:
            t, prev = st[i]
            raw = (t, tuple(sorted(s(p) for p in prev)))
            sig[i] = intern.setdefault(raw, len(intern))
        return sig[i]
    return tuple(sorted(s(i) for i in range(len(st))))


def enumerate_jobs(ast: Seq, k: int = 2,
                   limit: Optional[int] = None,
                   raw_limit: Optional[int] = None) -> Iterator[tuple]:
    """All maximal executions, each loop instance run 1..k times.
    raw_limit bounds the executions looked at (duplicates included)."""
    c = 0
    raw = 0
    seen = set()
    intern = {}
    for st, fr, br in _exec(ast, (), frozenset(), k):
        raw += 1
        if raw_limit and raw > raw_limit:
            return
        if not st:
            continue
        key = canon(st, intern)
        if key in seen:
            continue
        seen.add(key)
        yield st
        c += 1
        if limit and c >= limit:
            return


def job_to_json(job):
    return [[t, sorted(p)] for t, p in job]


def job_from_json(j):
    return tuple((t, frozenset(p)) for t, p in j)


# --------------------------------------------------------------------------
# acceptor
# --------------------------------------------------------------------------
class AcceptBudget(Exception):
    """Backtracking exceeded its step budget (inconclusive, not a verdict)."""


def accepts(ast: Seq, job: tuple, budget: int = 2_000_000) -> bool:
    """True iff some maximal execution of ast is isomorphic to job."""
    n = len(job)
    by_key = {}
    for i, (t, prev) in enumerate(job):
        by_key.setdefault((t, prev), []).append(i)
    steps = [0]

    def tick():
        steps[0] += 1
        if steps[0] > budget:
            raise AcceptBudget()

    def ex(node, used: frozenset, fr):
        tick()
        if isinstance(node, Ev):
            cands = by_key.get((node.name, fr), ())
            for c in cands:
                if c not in used:
                    yield used | {c}, frozenset([c]), frozenset()
        elif isinstance(node, Break):
            yield used, None, fr
        elif isinstance(node, Kill):
            yield used, None, frozenset()
        elif isinstance(node, Seq):
            def go(i, used, fr, br):
                if i == len(node.items) or fr is None:
                    yield used, fr, br
                    return
                for u2, f2, b2 in ex(node.items[i], used, fr):
                    yield from go(i + 1, u2, f2, br | b2)
            yield from go(0, used, fr, frozenset())
        elif isinstance(node, Fork):
            if node.kind == "XOR":
                for b in node.branches:
                    yield from ex(b, used, fr)
            else:
                for sub in _subsets(node.kind, len(node.branches)):
                    def go(j, used, out, br, alive, sub=sub):
                        if j == len(sub):
                            yield used, (out if alive else None), br
                            return
                        for u2, f2, b2 in ex(node.branches[sub[j]], used, fr):
                            yield from go(j + 1, u2,
                                          out | (f2 or frozenset()), br | b2,
                                          alive or f2 is not None)
                    yield from go(0, used, frozenset(), frozenset(), False)
        elif isinstance(node, Loop):
            def it(used, fr, exits):
                for u2, f2, b2 in ex(node.body, used, fr):
                    e2 = exits | b2
                    if f2 is None:
                        yield u2, (e2 if e2 else None), frozenset()
                    else:
                        yield u2, e2 | f2, frozenset()
                        if len(u2) > len(used):
                            yield from it(u2, f2, e2)
            yield from it(used, fr, frozenset())
        else:
            raise TypeError(node)

    for used, fr, br in ex(ast, frozenset(), frozenset()):
        if len(used) == n:
            return True
    return False


# --------------------------------------------------------------------------
# models (what survives ingestion): per type, the family of successor and
# predecessor multisets
# --------------------------------------------------------------------------
def model_of_jobs(jobs):
    """{type: (frozenset of successor multisets, frozenset of predecessor
    multisets)}; a multiset is a sorted tuple of (type, count)."""
    out, inn = {}, {}
    for job in jobs:
        succ = {i: [] for i in range(len(job))}
        for i, (t, prev) in enumerate(job):
            for p in prev:
                succ[p].append(t)
        for i, (t, prev) in enumerate(job):
            out.setdefault(t, set())
            inn.setdefault(t, set())
            if succ[i]:
                out[t].add(_ms(succ[i]))
            if prev:
                inn[t].add(_ms([job[p][0] for p in prev]))
            else:
                inn[t].add((("|||START|||", 1),))
    return {t: (frozenset(out[t]), frozenset(inn[t])) for t in out}


def _ms(xs):
    c = {}
    for x in xs:
        c[x] = c.get(x, 0) + 1
    return tuple(sorted(c.items()))
