from .event_solution import EventSolution
class GraphSolution:
    def __init__(self):
        self.start_events = {}
        self.end_events = {}
        self.events = {}
        self.event_dict_count = 0
    def add_event(self, event):
        self.event_dict_count += 1
        if event.is_start:
            self.start_events[self.event_dict_count] = event
        if event.is_end:
            self.end_events[self.event_dict_count] = event
        self.events[self.event_dict_count] = event
    def parse_event_solutions(self, events):
        for e in events:
            self.add_event(e)
    @classmethod
    def from_event_list(cls, event_list):
        event_list = list(event_list)
        sols = {}
        for ev in event_list:
            sols[ev["eventId"]] = EventSolution(meta_data={"EventType": ev["eventType"]})
        for ev in event_list:
            prev = ev.get("previousEventIds", [])
            if isinstance(prev, str):
                prev = [prev]
            for p in prev:
                sols[ev["eventId"]].add_prev_event(sols[p])
        for s in sols.values():
            s.add_to_previous_events()
        g = cls()
        g.parse_event_solutions(list(sols.values()))
        return g
