#!/usr/bin/env python3
"""Confirm a seeded change and run the checks against it.

    tools/seedeval.py <delivery dir> <seed id> <property> <worktree> [tier]

The delivery dir holds patch.diff, demo.py, meta.json written by a sub-agent
that saw only the property text.  Steps (all in the scratch worktree, never
in /repo): apply the patch; run the pinned suite (must still give 120
passed); run demo.py (must FAIL); run `VERIF_REPO=<worktree> ./check <P>
<tier>` for every listed property; revert; run demo.py (must PASS).  The
result is stored as /verif/seeded/<seed id>/.
"""
import json
import os
import re
import shutil
import subprocess
import sys

VERIF = os.path.dirname(os.path.dirname(os.path.abspath(__file__)))
SHIM = os.path.join(VERIF, "shim")


def sh(cmd, cwd=None, env=None, timeout=3600):
    p = subprocess.run(cmd, cwd=cwd, env=env, shell=isinstance(cmd, str),
                       stdout=subprocess.PIPE, stderr=subprocess.STDOUT,
                       text=True, timeout=timeout)
    return p.returncode, p.stdout


def main():
    src, sid, props, wt = sys.argv[1:5]
    tier = sys.argv[5] if len(sys.argv) > 5 else "quick"
    props = props.split(",")
    patch = os.path.join(src, "patch.diff")
    demo = os.path.join(src, "demo.py")
    res = {"id": sid, "properties": props, "ran": []}
    rc, out = sh("git status --porcelain", cwd=wt)
    if out.strip():
        print("worktree not clean:", out)
        return 2
    rc, out = sh(["git", "apply", patch], cwd=wt)
    if rc:
        print("patch does not apply", out)
        return 2
    env = dict(os.environ, PYTHONPATH=f"{SHIM}:{wt}", TQDM_DISABLE="1")
    try:
        rc, out = sh("TQDM_DISABLE=1 /venv/bin/python -m pytest -q -p "
                     "no:cacheprovider --timeout=900 "
                     "--continue-on-collection-errors 2>&1 | tail -15",
                     cwd=wt)
        m = re.search(r"(\d+) passed", out)
        summ = [l for l in out.splitlines() if " passed" in l]
        res["suite_with_patch"] = (summ or out.strip().splitlines()[-1:])[-1]
        res["suite_passed"] = int(m.group(1)) if m else 0
        rc, out = sh(["/venv/bin/python", demo], cwd=wt, env=env)
        res["demo_with_patch_exit"] = rc
        res["demo_with_patch_tail"] = out[-400:]
        for p in props:
            e2 = dict(os.environ, VERIF_REPO=wt)
            rc, out = sh([os.path.join(VERIF, "check"), p, tier], cwd=VERIF,
                         env=e2, timeout=7200)
            lines = [l for l in out.splitlines()
                     if l.startswith("VIOLATION") or l.startswith("KNOWN")]
            tail = out.strip().splitlines()[-1:] if out.strip() else []
            first = ""
            mm = re.search(r"VIOLATION[^\n]*\n((?:  [^\n]*\n?){1,6})", out)
            if mm:
                first = mm.group(1)[:600]
            res["ran"].append({"cmd": f"VERIF_REPO=<tree with patch> ./check "
                               f"{p} {tier}", "exit": rc, "lines": lines,
                               "first_message": first, "summary": tail})
            # keep one replay with the seeded change, restore evidence
            for l in lines:
                mm = re.search(r"replay=(\S+)", l)
                if mm and os.path.exists(os.path.join(VERIF, mm.group(1))) \
                        and "/known/" not in mm.group(1):
                    dst = os.path.join(VERIF, "seeded", sid)
                    os.makedirs(dst, exist_ok=True)
                    shutil.move(os.path.join(VERIF, mm.group(1)),
                                os.path.join(dst, f"replay-{p}.json"))
                    break
            for f in os.listdir(os.path.join(VERIF, "replays")):
                if f.startswith(p + "-"):
                    os.remove(os.path.join(VERIF, "replays", f))
            sh(["git", "checkout", "--", f"evidence/{p}.json"], cwd=VERIF)
    finally:
        sh("git checkout -- . && git clean -fdq", cwd=wt)
    rc, out = sh(["/venv/bin/python", demo], cwd=wt, env=env)
    res["demo_without_patch_exit"] = rc
    res["confirmed"] = (res.get("suite_passed", 0) >= 120
                        and res.get("demo_with_patch_exit") == 1
                        and rc == 0)
    res["detected_by"] = [r["cmd"].split()[-2] for r in res["ran"]
                          if r["exit"] == 1]
    dst = os.path.join(VERIF, "seeded", sid)
    os.makedirs(dst, exist_ok=True)
    shutil.copy(patch, os.path.join(dst, "patch.diff"))
    shutil.copy(demo, os.path.join(dst, "demo.py"))
    meta = {}
    mp = os.path.join(src, "meta.json")
    if os.path.exists(mp):
        try:
            meta = json.load(open(mp))
        except Exception:
            meta = {"raw": open(mp).read()}
    out_meta = {
        "id": sid,
        "breaks_property": props[0],
        "summary": meta.get("summary"),
        "needs_to_manifest": meta.get("needs_to_manifest") or meta.get("needs"),
        "files": meta.get("files"),
        "author": "fresh sub-agent given only the property text and a "
                  "scratch worktree",
        "confirmation": {
            "pinned_suite_with_patch": res.get("suite_with_patch"),
            "demo_with_patch_exit": res.get("demo_with_patch_exit"),
            "demo_without_patch_exit": res.get("demo_without_patch_exit"),
            "confirmed": res["confirmed"],
        },
        "checks_run": res["ran"],
        "detected_by": res["detected_by"],
    }
    with open(os.path.join(dst, "meta.json"), "w") as f:
        json.dump(out_meta, f, indent=1)
    print(json.dumps({k: out_meta[k] for k in
                      ("id", "confirmation", "detected_by")}, indent=1))
    for r in res["ran"]:
        print(r["cmd"], "->", r["exit"], r["lines"][:2], r["summary"])
    return 0


if __name__ == "__main__":
    sys.exit(main())
