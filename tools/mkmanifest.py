#!/usr/bin/env python3
"""Regenerate /verif/MANIFEST.json from the table below.  A property is
claimed iff checks/<id>.py exists; the others go to not_applicable with the
reason given here."""
import json
import os

VERIF = os.path.dirname(os.path.dirname(os.path.abspath(__file__)))

T = {
 "C01": dict(
  technique="property-based testing (Hypothesis grammar of definitions) + corpus sweep + coverage-guided stage (atheris/libFuzzer driving the same strategy) against a reference acceptor",
  text="Generated search: block-structured definitions of fragment F, the 63 corpus definitions and four families enumerated completely on every run (1000 loop/break shapes, 320 nested-fork shapes, break-branch shapes, all partial views of four small plain OR forks) are executed by a reference semantics into job sets, the real learner is run under a step-bound watchdog and every input job is checked for membership in the emitted diagram with a backtracking reference acceptor; a coverage-guided stage (atheris) drives the same strategy. Evidence of absence only up to the generated sizes; families of genuine defects are excluded by input predicates listed in known_findings.json.",
  note="Trusted: vlib/pumlsem.py (reference semantics, self-tested against the corpus), the janus stand-in shim/test_event_generator (validated by upstream tests), monkeypatched uuid4 for replayability.",
  ref="5 C01, 6"),
 "C02": dict(
  technique="property-based testing, bounded language inclusion against the source definition (reference enumerator + acceptor)",
  text="For generated definitions, the corpus and the enumerated loop/fork/break-branch shape families with their complete execution set (loops once and twice) every job of the emitted diagram (loops <=2, capped/sampled above 3000) is tested for membership in the source definition.",
  note="Trusted: vlib/pumlsem.py enumerator and acceptor; language inclusion is bounded at two loop iterations.",
  ref="5 C02, 6"),
 "C03": dict(
  technique="metamorphic property-based testing across presentations, schedule seeds and interpreter hash seeds",
  text="Each drawn job set (incl. branch-count job sets) is learned twice - original presentation and a drawn permutation/renaming/duplication, different schedule seeds, two cases in five also through the file routes of pv2puml (one array file per job; one file per event grouped by job id, files interleaved) - and paired shards repeat the same cases under different PYTHONHASHSEED values (16 seeds; every corpus definition under all of them); outcomes must be of the same kind, over the same events, with equal models and mutually accepting diagrams.",
  note="Trusted: reference acceptor; container order is driven through the patched uuid4, hash seeds are sampled (8 values).",
  ref="5 C03"),
 "C04": dict(
  technique="history-based property testing: chunked learning through saved model files vs all-at-once, plus model-file round trip on generated models",
  text="Generated job sets are split into 2-3 chunks (all split points for small sets); each boundary crosses the real save/load functions behind -om/-im; final diagram and final model must equal the all-at-once ones; generated models with counts >1 must round-trip; OTel-route histories (otel2puml -om on a first delivery, otel2puml -im <every model> -om on a second, several workflows) are compared with otel2puml on everything.",
  note="Trusted: reference acceptor; model equality compares sets of counted multisets.",
  ref="5 C04"),
 "C05": dict(
  technique="property-based testing + coverage-guided stage (atheris/libFuzzer driving the same strategy) with a strict validator of the emitted dialect",
  text="Every emitted text for generated/corpus job sets and the enumerated loop/fork/break-branch shape families is parsed by an unforgiving stack-discipline validator and its event names compared with the input types; placeholders must not leak.",
  note="Trusted: the strict validator (vlib/pumlstrict.py).",
  ref="5 C05"),
 "C06": dict(
  technique="exhaustive enumeration of gate trees (<=5 leaves quick, <=6 thorough) against set semantics of AND/OR/XOR",
  text="All gate trees up to the bound with their complete outcome families are fed to calculate_logic_gates; the returned tree is interpreted by the same three rules; soundness for all, exactness for the stated sub-class; the smaller trees are inferred again under four naming schemes (names that are concatenations of each other, operator tokens, white-space twins) - the event name 'tau' is an open finding and is not generated.",
  note="Trusted: 30-line outcome semantics used for both sides.",
  ref="5 C06"),
 "C07": dict(
  technique="property-based testing of structural invariants of detect_loops on generated looping definitions",
  text="Generated looping definitions (nested, breaks, forks inside), the corpus loop cases and the enumerated loop-shape and break-branch-shape families are ingested and passed through detect_loops; the result and every sub graph must be acyclic, single-entry, contain each event type exactly once, and enclose every cyclic edge.",
  note="Trusted: networkx for cycle/SCC computation on the input directly-follows graph.",
  ref="5 C07"),
 "C08": dict(
  technique="model-based testing: exhaustive small interval trees + Hypothesis trees against a reference sequencer written from the documentation",
  text="All rooted trees on <=4 spans with grid intervals in both modes, plus random trees up to 30 spans with group/rename maps, are sequenced by the real code and by an independent reference; events, fields and predecessor sets must match; acyclicity and descendant-order invariants are checked model-free.",
  note="Trusted: vlib/refseq.py written from docs/user/sequencer_HOWTO.md.",
  ref="5 C08"),
 "C09": dict(
  technique="property-based + small exhaustive testing against canonical tree forms, metamorphic over batch size and ingestion order",
  text="Generated multisets of labelled rooted trees over several workflow names are ingested into the real SQL holder; find_unique_graphs must select exactly one trace per canonical form per name, identically across batch sizes and orders.",
  note="Trusted: canonical form (type, sorted child forms); in-memory SQLite.",
  ref="5 C09"),
 "C10": dict(
  technique="model-based property testing (dict model) over duplicate placements and batch sizes",
  text="Generated span streams with dense duplicate ids are ingested with every batch size (and split over runs against one file database); tables nodes and NODE_ASSOCIATION must equal the first-occurrence model.",
  note="Trusted: dict model; SQLite as shipped.",
  ref="5 C10"),
 "C11": dict(
  technique="model-based property testing of the cleaning steps + metamorphic never-ingested comparison",
  text="Generated stores mixing complete, dangling-parent, inconsistent-name and in/out/straddling-window traces are cleaned by the real statements and compared with a reference model; PV sequences of survivors equal those of a store that never saw the removed traces.",
  note="Trusted: reference cleaning model written from the statement.",
  ref="5 C11"),
 "C12": dict(
  technique="model-based property testing of the lazy two-level stream over batch sizes and filters",
  text="Generated stores with interleaved ingestion are streamed with several yield_per windows and optional filters; names, traces, spans and links must match the model exactly once each.",
  note="Trusted: dict model; consumption pattern equal to sequence_otel_job_id_streams.",
  ref="5 C12"),
 "C13": dict(
  technique="differential property testing against a reference interpreter of the documented path semantics",
  text="Generated OTel-shaped documents and mappings built from the documented forms are run through the real jq-based JSONDataSource and through a pure-Python reference interpreter; yielded OTelEvents must agree as multisets in whole-file and per-line modes, for drawn file layouts (nested directories, single file through filepath, several per-line files).",
  note="Trusted: vlib/refjq.py written from docs/user/json_data_converter_HOWTO.md.",
  ref="5 C13"),
 "C14": dict(
  technique="differential property testing of the two CLI routes through the real entry point",
  text="Generated multi-workflow trace sets are run through otel2puml and through otel2pv -se followed by pv2puml (optionally with one custom mapping); diagrams must be equivalent and saved files must equal the in-memory stream; pv2puml reads the saved files as a folder, as listed files or as single-event files with -group-by-job; values also in real-telemetry forms (URLs, route templates), single-trace workflows with 64..256 spans.",
  note="Trusted: reference acceptor for diagram equivalence; real argparse entry point.",
  ref="5 C14"),
 "C15": dict(
  technique="exhaustive short histories + drawn longer ones of separate-process CLI runs against one database file, model-based oracle",
  text="All flag histories of length <=2 (quick) / <=3 (thorough) over one SQLite file are executed as separate python -m tel2puml processes; every run must exit 0 and every saving run must produce the expected traces/shapes.",
  note="Trusted: C08/C09 reference models for expected outputs.",
  ref="5 C15"),
 "C16": dict(
  technique="property-based testing with exhaustive boundary enumeration against integer datetime arithmetic",
  text="Boundary instants enumerated completely, the rest drawn; both converters compared with exact integer arithmetic, order preservation on arbitrary nanosecond pairs, PV->ns->PV identity.",
  note="Trusted: CPython datetime/timedelta integer arithmetic.",
  ref="5 C16"),
}


def main():
    checks, na = [], []
    for pid, d in T.items():
        if os.path.exists(os.path.join(VERIF, "checks", pid.lower() + ".py")):
            checks.append({
                "property_id": pid,
                "quick_cmd": f"./check {pid} quick",
                "thorough_cmd": f"./check {pid} thorough",
                "evidence_file": f"evidence/{pid}.json",
                "replay_cmd_template": f"./check {pid} --replay {{path}}",
                "engine": "verif-pbt",
                "level_claimed": {"category": "exploration", "text": d["text"],
                                  "design_ref": "DESIGN.md section " + d["ref"]},
                "level_note": d["note"],
                "technique": d["technique"],
            })
        else:
            na.append({"property_id": pid,
                       "reason": "check not built yet (work in progress); "
                                 "the technique applies, see DESIGN.md section "
                                 + d["ref"]})
    m = {
        "version": 1,
        "setup_cmd": "./check setup",
        "hooks": {
            "guard": "XTUML_OTEL2PUML_VERIF",
            "enable": "no source hooks are needed: the checks import /repo's "
                      "working tree directly and monkeypatch uuid4/datetime "
                      "from the harness process",
            "baseline_off_cmd": "cd /repo && /venv/bin/python -m pytest -ra -q "
                                "-p no:cacheprovider --timeout=900 "
                                "--continue-on-collection-errors",
            "source_commits": [],
            "add_only": True,
        },
        "engines": [{
            "name": "verif-pbt", "path": "check",
            "serves_properties": [c["property_id"] for c in checks],
            "kind_free_text": "Hypothesis 6.168 strategies (+ atheris 3.1 coverage-guided stage for C01/C05) + complete "
            "enumeration of small finite domains, sharded over 16 worker "
            "processes, explicit oracles (reference models / metamorphic "
            "relations), replay files, known_findings.json",
        }],
        "checks": checks,
        "not_applicable": na,
        "notes": "Every check: ./check <ID> quick|thorough, VERIF_SEED "
                 "honoured, evidence/<ID>.json rewritten on each run, exit 2 "
                 "= harness error (never a violation). known_findings.json "
                 "lists genuine defects (fixed ones with their fix: commit).",
    }
    with open(os.path.join(VERIF, "MANIFEST.json"), "w") as f:
        json.dump(m, f, indent=1)
    print("claimed:", [c["property_id"] for c in checks])


if __name__ == "__main__":
    main()
