#!/usr/bin/env python3
"""Regenerate seeded/INDEX.json from seeded/<id>/meta.json."""
import json
import os

VERIF = os.path.dirname(os.path.dirname(os.path.abspath(__file__)))
S = os.path.join(VERIF, "seeded")
old = {}
try:
    old = json.load(open(os.path.join(S, "INDEX.json")))
except Exception:
    pass
changes = []
for d in sorted(os.listdir(S)):
    mp = os.path.join(S, d, "meta.json")
    if not os.path.exists(mp):
        continue
    m = json.load(open(mp))
    changes.append({
        "id": d, "breaks_property": m.get("breaks_property"),
        "confirmed": (m.get("confirmation") or {}).get("confirmed"),
        "detected_by": m.get("detected_by"), "files": m.get("files"),
        "checks_run": [{"cmd": r["cmd"], "exit": r["exit"]}
                       for r in m.get("checks_run", [])]})
out = {"comment": old.get("comment") or
       "one entry per seeded change under seeded/<id>/",
       "changes": changes}
json.dump(out, open(os.path.join(S, "INDEX.json"), "w"), indent=1)
und = [c["id"] for c in changes if not c.get("detected_by")]
unc = [c["id"] for c in changes if not c.get("confirmed")]
print(len(changes), "changes; undetected:", und, "; unconfirmed:", unc)
