"""C13 - field-mapping extraction follows the documented path semantics."""
import json
import os
import shutil
import tempfile

from vlib import refjq
from vlib.runner import Violation

ID = "C13"
LEVEL = "exploration"
RULE = (
    "documents: a chain of 1..3 nested arrays (OTel shape resource_spans > "
    "scope_spans > spans when depth 3) with 0..3 elements per level (empty "
    "arrays, null, missing and scalar array slots included), header objects "
    "and attribute arrays (distinct string keys) at every level, keys "
    "randomly absent or null, nanosecond times as integers above 2^53 or as "
    "strings, 1..3 documents per case; mappings: each of the 8 fields is "
    "assembled from the documented forms - simple dotted path at a drawn "
    "level, header value of an enclosing level, key/value lookup in an "
    "attribute array, 1..3 '_'-concatenated components, 1..3 priority "
    "fall-backs (including paths that do not exist). Run: the real "
    "JSONDataSource on files in a temp dir, whole-file mode (one file per "
    "document, dirpath) and one-JSON-per-line mode (one file, filepath); "
    "half of the cases vary the layout: whole files in nested sub-directories "
    "(the directory is searched recursively), a single whole file through "
    "`filepath`, several per-line files below one directory. A fixed family "
    "has runs of 63..1000 consecutive records without a span id with valid "
    "records behind them (same group, next group, leading group). "
    "Oracle: vlib/refjq.py (pure Python reference of the HOWTO) - multiset "
    "of yielded OTelEvents == multiset of reference records that validate; "
    "both modes equal. Non-trivial: >=2 valid spans, and either >=1 invalid "
    "record among them or a mapping that uses a lookup or a fall-back. "
    "Distinct by serialised case.")
ASSUMPTIONS = [
    "vlib/refjq.py follows docs/user/json_data_converter_HOWTO.md; array "
    "prefixes of all paths form a chain (sibling array prefixes, booleans, "
    "floats, duplicate attribute keys and object-valued array slots are not "
    "generated: the document does not say what they mean)",
    "a record validates iff the seven required fields are non-null and both "
    "times are integer strings",
]
EXHAUSTIVE = ()

FIELDS = ("job_name", "job_id", "event_type", "event_id", "start_timestamp",
          "end_timestamp", "application_name", "parent_event_id")


# ---- running the real code -----------------------------------------------
def run_real(docs, mapping, per_line, raw_unicode=False, blank_tail=False,
             layout=0):
    from tel2puml.otel_to_pv.data_sources.json_data_source.json_config import (
        JSONDataSourceConfig, OTelFieldMapping)
    from tel2puml.otel_to_pv.data_sources.json_data_source.json_datasource \
        import JSONDataSource
    d = tempfile.mkdtemp(prefix="verif-c13-")
    try:
        fm = OTelFieldMapping(**mapping)
        if per_line and layout & 2 and len(docs) >= 2:
            # several per-line files below one directory, one of them nested
            cut = 1 + layout % (len(docs) - 1) if len(docs) > 2 else 1
            os.makedirs(os.path.join(d, "sub", "deep"))
            for path, part in ((os.path.join(d, "b.json"), docs[:cut]),
                               (os.path.join(d, "sub", "deep", "a.jsonl"),
                                docs[cut:])):
                with open(path, "w", encoding="utf-8") as f:
                    for doc in part:
                        f.write(json.dumps(doc, ensure_ascii=not raw_unicode)
                                + "\n")
                    if blank_tail:
                        f.write("\n")
            cfg = JSONDataSourceConfig(filepath=None, dirpath=d,
                                       json_per_line=True, field_mapping=fm)
        elif per_line:
            path = os.path.join(d, "all.json")
            with open(path, "w", encoding="utf-8") as f:
                for doc in docs:
                    f.write(json.dumps(doc, ensure_ascii=not raw_unicode)
                            + "\n")
                if blank_tail:
                    f.write("\n")       # file ends with an empty line
            cfg = JSONDataSourceConfig(filepath=path, dirpath=None,
                                       json_per_line=True, field_mapping=fm)
        elif layout & 1 and len(docs) == 1:
            # whole-file mode through `filepath`
            path = os.path.join(d, "single.json")
            with open(path, "w", encoding="utf-8") as f:
                json.dump(docs[0], f, indent=2, ensure_ascii=not raw_unicode)
            cfg = JSONDataSourceConfig(filepath=path, dirpath=None,
                                       json_per_line=False, field_mapping=fm)
        else:
            for i, doc in enumerate(docs):
                sub = d
                if layout & 1:
                    # the directory is searched recursively
                    sub = os.path.join(d, f"s{i % 2}", *(["x"] * (i % 3)))
                    os.makedirs(sub, exist_ok=True)
                with open(os.path.join(sub, f"doc{i}.json"), "w",
                          encoding="utf-8") as f:
                    json.dump(doc, f, indent=(None if i % 2 else 2),
                              ensure_ascii=not raw_unicode)
            cfg = JSONDataSourceConfig(filepath=None, dirpath=d,
                                       json_per_line=False, field_mapping=fm)
        src = JSONDataSource(cfg)
        return [e.model_dump() for e in src]
    finally:
        shutil.rmtree(d, ignore_errors=True)


def key(ev):
    return json.dumps(ev, sort_keys=True)


def expected(docs, mapping):
    out = []
    n_invalid = 0
    for doc in docs:
        for r in refjq.records(doc, mapping):
            ev = refjq.valid_event(r)
            if ev is None:
                n_invalid += 1
            else:
                out.append(ev)
    return out, n_invalid


def check_case(case):
    docs, mapping = case["docs"], case["mapping"]
    want, _ = expected(docs, mapping)
    want_keys = sorted(key(e) for e in want)
    res = {}
    for per_line in (False, True):
        label = "per-line mode" if per_line else "whole-file mode"
        try:
            got = run_real(docs, mapping, per_line,
                           bool(case.get("raw_unicode")),
                           bool(case.get("blank_tail")),
                           int(case.get("layout", 0)))
        except Exception as e:
            raise Violation(f"{label}: JSONDataSource raised "
                            f"{type(e).__name__}: {str(e)[:400]}")
        got_keys = sorted(key(e) for e in got)
        res[per_line] = got_keys
        if got_keys != want_keys:
            missing = [k for k in want_keys if k not in got_keys][:2]
            extra = [k for k in got_keys if k not in want_keys][:2]
            raise Violation(
                f"{label}: {len(got_keys)} events yielded, the documented "
                f"semantics gives {len(want_keys)}; missing e.g. {missing}; "
                f"unexpected e.g. {extra}")


def replay(case):
    try:
        check_case(case)
    except Violation as v:
        return str(v)
    return None


def classify(case):
    want, n_invalid = expected(case["docs"], case["mapping"])
    classes = [f"depth={case.get('depth')}"]
    uses_lookup = uses_fallback = uses_concat = False
    for spec in case["mapping"].values():
        for comp in refjq.normalise(spec):
            if len(comp) > 1:
                uses_fallback = True
            if any(kv is not None for _, kv, _ in comp):
                uses_lookup = True
        if len(refjq.normalise(spec)) > 1:
            uses_concat = True
    if uses_lookup:
        classes.append("lookup")
    if uses_fallback:
        classes.append("fallback")
    if uses_concat:
        classes.append("concat")
    if n_invalid:
        classes.append("invalid_records")
    if len(want) >= 2:
        classes.append("valid>=2")
    if len(case["docs"]) > 1:
        classes.append("multi_doc")
    if case.get("raw_unicode"):
        classes.append("files_without_unicode_escapes")
    if case.get("blank_tail"):
        classes.append("per_line_file_ends_with_blank_line")
    lay = int(case.get("layout", 0))
    if lay & 1:
        classes.append("whole_file_through_filepath" if len(case["docs"]) == 1
                       else "whole_files_in_nested_directories")
    if lay & 2 and len(case["docs"]) >= 2:
        classes.append("several_per_line_files_in_a_directory_tree")
    seen = {}
    for spec in case["mapping"].values():
        for comp in refjq.normalise(spec):
            for kp, kv, vp in comp:
                if kv is not None:
                    seen.setdefault((kp, kv), set()).add(vp)
    if any(len(v) > 1 for v in seen.values()):
        classes.append("same_key_looked_up_through_two_value_paths")
    nt = len(want) >= 2 and (n_invalid >= 1 or uses_lookup or uses_fallback)
    return nt, classes


# ---- generators ----------------------------------------------------------
LEVEL_NAMES = {1: ["spans"], 2: ["scope_spans", "spans"],
               3: ["resource_spans", "scope_spans", "spans"]}
HEADER_OBJ = {"resource_spans": "resource", "scope_spans": "scope",
              "spans": "info"}
BIG = 1723544132228102912


def case_strategy():
    from hypothesis import strategies as st

    ident = st.sampled_from(["a", "b", "svc", "x1", "GET", "200", "wf one",
                             "t-1", "Z", "l\u2028s", "p\u2029s", "n\u0085l",
                             "\u00e9t\u00e9"])
    tstamp = st.one_of(
        st.integers(BIG, BIG + 10**6),
        st.integers(BIG, BIG + 10**6).map(str),
        st.integers(0, 5000))

    # attribute keys are opaque strings: white space, a leading dot and
    # twins that differ only by them are legal keys
    HDR_KEYS = ["service.name", "ver", "app name", "appname"]
    SPAN_KEYS = ["http.method", "http.response", "http status",
                 ".legacy.status", "legacy.status"]

    @st.composite
    def attrs(draw, keys):
        present = [k for k in keys if draw(st.integers(0, 5)) > 0]
        present = list(draw(st.permutations(present)))
        out = []
        for k in present:
            shape = draw(st.integers(0, 9))
            if shape == 0:
                out.append({"key": k})
            elif shape == 1:
                out.append({"key": k, "value": {"Value": {}}})
            elif shape == 2:
                out.append({"key": k, "value": {"Value": {
                    "IntValue": draw(st.integers(0, 599))}}})
            else:
                out.append({"key": k, "value": {"Value": {
                    "StringValue": draw(ident)}}})
        if draw(st.integers(0, 6)) == 0:
            out.append({"value": {"Value": {"StringValue": "nokey"}}})
        if draw(st.integers(0, 6)) == 0:
            out.append({"key": None, "value": {"Value": {"StringValue": "n"}}})
        return out

    mess = {"n": 11}

    def maybe(draw, d, k, v):
        r = draw(st.integers(0, mess["n"]))
        if r == 0:
            return
        d[k] = None if r == 1 else v

    @st.composite
    def element(draw, level, names):
        """object at array level `level` (0-based)."""
        name = names[level]
        d = {}
        hdr = {}
        maybe(draw, hdr, "name", draw(ident))
        maybe(draw, hdr, "attributes", draw(attrs(HDR_KEYS)))
        maybe(draw, d, HEADER_OBJ[name], hdr)
        if level == len(names) - 1:
            maybe(draw, d, "trace_id", "t" + str(draw(st.integers(0, 3))))
            maybe(draw, d, "span_id", "s" + str(draw(st.integers(0, 99))))
            if draw(st.booleans()):
                d["parent_span_id"] = draw(st.one_of(
                    st.none(), st.just("s" + str(draw(st.integers(0, 99))))))
            maybe(draw, d, "name", draw(ident))
            maybe(draw, d, "start_time_unix_nano", draw(tstamp))
            maybe(draw, d, "end_time_unix_nano", draw(tstamp))
            maybe(draw, d, "attributes",
                  draw(attrs(SPAN_KEYS)))
        else:
            slot = draw(st.integers(0, 14))
            nxt = names[level + 1]
            if slot == 0:
                pass                      # missing
            elif slot == 1:
                d[nxt] = None
            elif slot == 2:
                d[nxt] = []
            elif slot == 3:
                d[nxt] = "scalar"
            else:
                n = draw(st.integers(1, 3 if level == len(names) - 2 else 2))
                d[nxt] = [draw(element(level + 1, names)) for _ in range(n)]
        return d

    @st.composite
    def document(draw, names):
        root = {}
        hdr = {}
        maybe(draw, hdr, "name", draw(ident))
        maybe(draw, hdr, "attributes", draw(attrs(HDR_KEYS)))
        maybe(draw, root, "meta", hdr)
        slot = draw(st.integers(0, 14))
        if slot == 0:
            pass
        elif slot == 1:
            root[names[0]] = None
        elif slot == 2:
            root[names[0]] = []
        else:
            n = draw(st.integers(1, 3 if len(names) == 1 else 2))
            root[names[0]] = [draw(element(0, names)) for _ in range(n)]
        return root

    def prefix(names, level):
        """path prefix addressing an object at array level `level`
        (-1 = document root)."""
        return "".join(n + ".[]." for n in names[:level + 1])

    @st.composite
    def source(draw, names, kind):
        """one (key_path, key_value, value_path) triple.  kind: which span
        attribute the field naturally wants."""
        depth = len(names)
        r = draw(st.integers(0, 12))
        if r <= 4 or r > 9:
            return (prefix(names, depth - 1) + kind, None, None)
        if r == 5:
            lvl = draw(st.integers(-1, depth - 1))
            hdr = "meta" if lvl < 0 else HEADER_OBJ[names[lvl]]
            return (prefix(names, lvl) + hdr + ".name", None, None)
        if r in (6, 7):
            lvl = draw(st.integers(-1, depth - 1))
            hdr = "meta" if lvl < 0 else HEADER_OBJ[names[lvl]]
            k = draw(st.sampled_from(HDR_KEYS + ["absent"]))
            return (prefix(names, lvl) + hdr + ".attributes.[].key", k,
                    draw(st.sampled_from(["value.Value.StringValue",
                                          "value.Value.StringValue",
                                          "value.Value.IntValue"])))
        if r == 8:
            k = draw(st.sampled_from(SPAN_KEYS))
            return (prefix(names, depth - 1) + "attributes.[].key", k,
                    draw(st.sampled_from(["value.Value.StringValue",
                                          "value.Value.StringValue",
                                          "value.Value.IntValue"])))
        return (prefix(names, depth - 1) + "not_here", None, None)

    NATURAL = {"job_name": "name", "job_id": "trace_id", "event_type": "name",
               "event_id": "span_id",
               "start_timestamp": "start_time_unix_nano",
               "end_timestamp": "end_time_unix_nano",
               "application_name": "name",
               "parent_event_id": "parent_span_id"}

    @st.composite
    def field_spec(draw, names, field):
        kind = NATURAL[field]
        simple_bias = field in ("job_id", "event_id", "start_timestamp",
                                "end_timestamp", "parent_event_id")
        if simple_bias and draw(st.integers(0, 5)) > 0:
            kp = prefix(names, len(names) - 1) + kind
            form = draw(st.integers(0, 2))
            if form == 0:
                return {"key_paths": [kp], "value_type": "string"}
            if form == 1:
                return {"key_paths": kp, "value_type": "string"}
            return {"key_paths": [kp], "key_value": [None],
                    "value_paths": [None], "value_type": "string"}
        ncomp = draw(st.sampled_from([1, 1, 1, 2, 2, 3]))
        if field in ("start_timestamp", "end_timestamp"):
            # "1_2" is an integer literal for the validator; whether a
            # concatenated time is valid is not documented
            ncomp = 1
        kps, kvs, vps = [], [], []
        for _ in range(ncomp):
            npr = draw(st.sampled_from([1, 1, 2, 3]))
            trip = [draw(source(names, kind)) for _ in range(npr)]
            if npr == 1 and draw(st.booleans()):
                kps.append(trip[0][0])
                kvs.append(trip[0][1])
                vps.append(trip[0][2])
            else:
                kps.append([t[0] for t in trip])
                kvs.append([t[1] for t in trip])
                vps.append([t[2] for t in trip])
        spec = {"key_paths": kps, "value_type": "string"}
        if any(v is not None for v in kvs) or draw(st.booleans()):
            spec["key_value"] = kvs
            spec["value_paths"] = vps
        return spec

    @st.composite
    def build(draw):
        depth = draw(st.sampled_from([1, 2, 3, 3]))
        names = LEVEL_NAMES[depth]
        mess["n"] = draw(st.sampled_from([11, 40, 40, 200]))
        docs = [draw(document(names))
                for _ in range(draw(st.sampled_from([1, 1, 2, 3])))]
        ncomplex = draw(st.sampled_from([1, 1, 2, 3, 8]))
        complex_fields = set(draw(st.permutations(list(FIELDS)))[:ncomplex])
        pre = prefix(names, len(names) - 1)
        mapping = {}
        for f in FIELDS:
            if f in complex_fields:
                mapping[f] = draw(field_spec(names, f))
            else:
                mapping[f] = {"key_paths": [pre + NATURAL[f]],
                              "value_type": "string"}
        case = {"depth": depth, "docs": docs, "mapping": mapping}
        if draw(st.integers(0, 3)) == 0:
            case["raw_unicode"] = True      # files written without \u escapes
        if draw(st.integers(0, 3)) == 0:
            case["blank_tail"] = True       # per-line file ends in a blank line
        lay = draw(st.sampled_from([0, 0, 1, 2, 3, 7]))
        if lay:
            case["layout"] = lay            # where the files are put
        return case

    return build()


def shrinker(case):
    docs = case["docs"]
    if len(docs) > 1:
        for i in range(len(docs)):
            yield dict(case, docs=docs[:i] + docs[i + 1:])
    names = LEVEL_NAMES[case["depth"]]
    # drop array elements
    def drops(obj, level):
        if level >= len(names) or not isinstance(obj, dict):
            return
        arr = obj.get(names[level])
        if isinstance(arr, list):
            for i in range(len(arr)):
                if len(arr) > 1:
                    yield dict(obj, **{names[level]: arr[:i] + arr[i + 1:]})
            for i, el in enumerate(arr):
                for sub in drops(el, level + 1):
                    yield dict(obj, **{names[level]: arr[:i] + [sub] + arr[i + 1:]})
    for di, doc in enumerate(docs):
        for nd in drops(doc, 0):
            yield dict(case, docs=docs[:di] + [nd] + docs[di + 1:])
    # simplify mapping fields to the natural simple path
    natural = {"job_name": "name", "job_id": "trace_id", "event_type": "name",
               "event_id": "span_id",
               "start_timestamp": "start_time_unix_nano",
               "end_timestamp": "end_time_unix_nano",
               "application_name": "name", "parent_event_id": "parent_span_id"}
    pre = "".join(n + ".[]." for n in names)
    for f in FIELDS:
        simple = {"key_paths": [pre + natural[f]], "value_type": "string"}
        if case["mapping"][f] != simple:
            m = dict(case["mapping"])
            m[f] = simple
            yield dict(case, mapping=m)


def plan(tier):
    return {"shards": 16, "budget_s": 300 if tier == "quick" else 3600,
            "coverage": {"bounds": "array chain depth <=3, <=3 elements per "
                         "level, <=3 documents, <=3 components x <=3 "
                         "priorities per field"}}


def long_run_case(n, where):
    """One document in which `n` consecutive records cannot form a valid span
    (no span id) and valid records follow - in the same group, in the next
    group, or both before and after."""
    def span(i, ok):
        d = {"name": f"op{i % 5}", "trace_id": f"t{i // 4}",
             "parent_span_id": None if i % 4 == 0 else f"s{i - 1}",
             "start_time_unix_nano": str(BIG + i),
             "end_time_unix_nano": str(BIG + i + 7)}
        if ok:
            d["span_id"] = f"s{i}"
        return d
    bad = [span(i, False) for i in range(n)]
    good = [span(1000 + i, True) for i in range(5)]
    if where == "same_group":
        groups = [{"spans": good[:2] + bad + good[2:]}]
    elif where == "next_group":
        groups = [{"spans": good[:2]}, {"spans": bad}, {"spans": good[2:]}]
    else:
        groups = [{"spans": bad}, {"spans": good}]
    pre = "scope_spans.[].spans.[]."
    nat = {"job_name": "name", "job_id": "trace_id", "event_type": "name",
           "event_id": "span_id", "start_timestamp": "start_time_unix_nano",
           "end_timestamp": "end_time_unix_nano", "application_name": "name",
           "parent_event_id": "parent_span_id"}
    mapping = {f: {"key_paths": [pre + v], "value_type": "string"}
               for f, v in nat.items()}
    return {"depth": 2, "docs": [{"scope_spans": groups}, {"scope_spans": [
        {"spans": good[:1]}]}], "mapping": mapping, "long_run": n}


def run_shard(ctx):
    def fn(case):
        nt, classes = classify(case)
        ctx.record(case, nt, classes)
        check_case(case)
    # long runs of records that cannot form a span, valid ones behind them
    runs = [(n, w) for n in (63, 64, 65, 100, 128, 255, 256, 1000)
            for w in ("same_group", "next_group", "leading_group")]
    for i, (n, w) in enumerate(runs):
        if i % ctx.nshards != ctx.shard:
            continue
        case = long_run_case(n, w)
        nt, classes = classify(case)
        ctx.record({"long_run": n, "where": w}, True,
                   classes + ["long_run_of_invalid_records"])
        try:
            check_case(case)
        except Violation as v:
            ctx.violation(case, f"[{n} invalid records, {w}] " + str(v))
            return
    ctx.run_given(case_strategy(), fn, 300 if ctx.tier == "quick" else 5000,
                  shrinker=shrinker)
