"""C05 - emitted PlantUML is well-formed and names exactly the observed
events."""
import re

from vlib import gen, learn, pumlsem as ps, pvcase
from vlib.runner import Violation

ID = "C05"
LEVEL = "exploration"
RULE = (
    "a case is (definition, loop bound, complete set or drawn subset, "
    "schedule seed) as in C01, with 30% of the generated definitions "
    "starting with a fork (several start events) and 20% using names with "
    "dots, spaces, slashes and tokens that collide with internal markers. "
    "The emitted text goes through a strict stack-discipline validator of "
    "the dialect (exact wrapper, separators only directly inside their own "
    "block, own terminators only, break only last-in-sequence inside a "
    "repeat, detach only last-in-sequence, nothing after them) and its "
    "multiset of names must cover exactly the input event types with no "
    "internal placeholder. Non-trivial: the emitted text contains a block "
    "keyword. Cases in which the learner raises are C01's business.")
ASSUMPTIONS = [
    "two families are enumerated completely on every run in addition to the "
    "drawn cases: 1000 loop/break shapes and 320 nested-fork shapes "
    "(vlib/gen.py loop_shapes, fork_shapes; complete job sets)",
    "vlib/pumlsem.validate_strict states the dialect plus2json consumes, "
    "as far as the property text fixes it; indentation, >=2 branches per "
    "block and non-empty branches are not demanded (counted only)",
    "cases whose input satisfies an open known-finding predicate are not "
    "executed",
]
EXHAUSTIVE = ()   # the loop-shape family is enumerated completely, see counters
PLACEHOLDERS = ("|||START|||", "|||END|||", "|||DUMMY|||", "DUMMY_BREAK",
                "START_LOOP", "END_LOOP", "BREAK_LOOP")


def run_case(case, ctx=None):
    m = pvcase.materialise(case)
    if m.too_large or not m.jobs:
        if ctx:
            ctx.count("skipped_too_large")
        return
    fam = pvcase.known_family(case, m, "C05")
    if fam and not case.get("force"):
        if ctx:
            ctx.exclude(fam)
        return
    r = learn.learn_jobs(m.jobs, "job", case["sched"])
    if r[0] != "ok":
        if ctx:
            ctx.record(case, False, pvcase.case_classes(case, m))
            ctx.count("learner_failed_(C01)")
        return
    text = r[1]
    if ctx:
        nt = bool(re.search(r"^\s*(fork|split|switch|repeat)\b", text, re.M))
        ctx.record(case, nt, pvcase.case_classes(case, m),
                   sample={"definition": ps.show(m.ast), "emitted": text})
    try:
        names, stats = ps.validate_strict(text, "job")
    except ps.PumlSyntaxError as e:
        raise Violation(f"emitted text is not well-formed: {e}\n{text}")
    if ctx:
        for k, v in stats.items():
            if k != "max_depth" and v:
                ctx.count("emitted_" + k, v)
    types = {t for j in m.jobs for t, _ in j}
    got = set(names)
    if got != types:
        raise Violation(
            f"names in the diagram differ from the input event types: "
            f"missing {sorted(types - got)}, extra {sorted(got - types)}\n"
            + text)
    for n in names:
        if n in types:
            continue
        if n in PLACEHOLDERS or re.fullmatch(r"LOOP_\d+", n) or \
                "|||" in n:
            raise Violation(f"internal placeholder {n!r} leaks\n{text}")


def replay(case):
    try:
        run_case(dict(case, force=True))
    except Violation as v:
        return str(v)
    return None


def covfuzz_target():
    """strategy and oracle for the coverage-guided stage (vlib/covfuzz.py)"""
    return pvcase.cases(), lambda c: run_case(c)


def plan(tier):
    return {"shards": 16, "budget_s": 240 if tier == "quick" else 3000,
            "hashseeds": [0, 1, 2, 3],
            "coverage": {"bounds": "<=16 event types, depth <=3, <=400 jobs"}}


def run_shard(ctx):
    from hypothesis import strategies as st
    files = pvcase.corpus_files()
    for i, (name, _) in enumerate(files):
        if i % ctx.nshards != ctx.shard:
            continue
        case = {"corpus": name, "k": 2, "pick": None,
                "sched": ctx.seed * 1000 + i}
        try:
            run_case(case, ctx)
        except Violation as v:
            ctx.violation(case, str(v))
            return
    # exhaustive nested-fork family (320 definitions, complete sets)
    for tag, case in pvcase.fork_shape_cases(ctx.seed, ctx.shard,
                                             ctx.nshards):
        ctx.count("fork_shapes_enumerated")
        try:
            run_case(dict(case, k=2) if ID == "C02" else case, ctx)
        except Violation as v:
            ctx.violation(case, f"[fork shape {tag}] " + str(v))
            return
    # directly nested (bunched) forks (24 definitions, outside F)
    for i, (tag, ast) in enumerate(gen.bunched_fork_shapes()):
        if i % ctx.nshards != ctx.shard:
            continue
        case = {"defn": ps.to_json(ast), "k": 2 if ID == "C02" else 1,
                "pick": None, "sched": ctx.seed * 1000 + i}
        ctx.count("bunched_fork_shapes_enumerated")
        try:
            run_case(case, ctx)
        except Violation as v:
            ctx.violation(case, f"[bunched shape {tag}] " + str(v))
            return
    # loops ending in a fork inside nested forks (24 definitions)
    for i, (tag, ast) in enumerate(gen.deep_loop_fork_shapes()):
        if i % ctx.nshards != ctx.shard:
            continue
        case = {"defn": ps.to_json(ast), "k": 2, "pick": None,
                "sched": ctx.seed * 1000 + i}
        ctx.count("deep_loop_fork_shapes_enumerated")
        try:
            run_case(case, ctx)
        except Violation as v:
            ctx.violation(case, f"[deep shape {tag}] " + str(v))
            return
    # richer break decisions (forks / loops inside the break branch)
    for tag, case in pvcase.break_branch_cases(ctx.seed, ctx.shard,
                                               ctx.nshards, False):
        ctx.count("break_branch_shapes_enumerated")
        try:
            run_case(case, ctx)
        except Violation as v:
            ctx.violation(case, f"[break branch shape {tag}] " + str(v))
            return
    # exhaustive loop/break family (1000 definitions, complete sets, k=2)
    for tag, case in pvcase.loop_shape_cases(ctx.seed, ctx.shard,
                                             ctx.nshards):
        ctx.count("loop_shapes_enumerated")
        try:
            run_case(case, ctx)
        except Violation as v:
            ctx.violation(case, f"[loop shape {tag}] " + str(v))
            return
    n = 150 if ctx.tier == "quick" else 4000
    strat = st.one_of(
        pvcase.cases(),
        pvcase.cases(multi_start=True),
        pvcase.cases(exotic=True),
        pvcase.cases(loops_required=True))
    ctx.run_given(strat, lambda c: run_case(c, ctx), n,
                  shrinker=pvcase.shrinker)
    if ctx.violations:
        return
    from vlib import covfuzz
    if ctx.tier == "thorough":
        covfuzz.run_stage(ctx, ID, runs=6000)
    elif ctx.shard < 4:
        covfuzz.run_stage(ctx, ID, runs=120, timeout=120)
