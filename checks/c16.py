"""C16 - PV timestamps and OTel nanosecond times convert consistently."""
from datetime import datetime, timedelta

from vlib.runner import Violation

ID = "C16"
LEVEL = "exploration"
RULE = (
    "cases are (a) microsecond instants u in [0, 2100-01-01): boundary set "
    "enumerated completely (4 anchor instants x 6 fractions x +-2us "
    "neighbourhoods, every second boundary of the first 10^4 us after the "
    "epoch; the last microsecond before 8 anchor seconds in 7 ns steps), the "
    "rest drawn by Hypothesis with a bias to second/minute/day "
    "boundaries; (b) pairs of arbitrary nanosecond instants a<b. Oracle = "
    "integer arithmetic on datetime+timedelta. Non-trivial: the instant has a "
    "non-zero sub-second fraction (pairs: either has). Distinct by the "
    "integers themselves.")
ASSUMPTIONS = [
    "shards run under different process time zones (TZ unset, EST5EDT, "
    "JST-9, +03:30, NZST/NZDT, UTC0); PV strings are also offered with "
    "shorter fractions (trailing zeros dropped) and without a fraction",
    "reference conversion uses datetime(1970,1,1)+timedelta(microseconds=u), "
    "exact integer arithmetic in CPython",
    "tolerance for string->ns is < 500 ns (half the input resolution)",
]
EXHAUSTIVE = ()

EPOCH = datetime(1970, 1, 1)
MAX_US = int((datetime(2100, 1, 1) - EPOCH).total_seconds()) * 10**6


def ref_string(us: int) -> str:
    d = EPOCH + timedelta(microseconds=us)
    return "%04d-%02d-%02dT%02d:%02d:%02d.%06dZ" % (
        d.year, d.month, d.day, d.hour, d.minute, d.second, d.microsecond)


def ref_us_of_string(s: str) -> int:
    d = datetime(int(s[0:4]), int(s[5:7]), int(s[8:10]), int(s[11:13]),
                 int(s[14:16]), int(s[17:19]))
    assert s[19] == "." and s[26:] == "Z" and len(s) == 27, s
    delta = d - EPOCH
    return (delta.days * 86400 + delta.seconds) * 10**6 + int(s[20:26])


def _funcs():
    from tel2puml.utils import unix_nano_to_pv_string
    from tel2puml.pv_to_tel import convert_timestamp_to_unix_nano
    return unix_nano_to_pv_string, convert_timestamp_to_unix_nano


def check_us(us: int) -> None:
    to_s, to_ns = _funcs()
    want = ref_string(us)
    got = to_s(1000 * us)
    if got != want:
        raise Violation(
            f"unix_nano_to_pv_string({1000*us}) = {got!r}, the instant is "
            f"{want!r}")
    ns = to_ns(want)
    if not isinstance(ns, int) or abs(ns - 1000 * us) >= 500:
        raise Violation(
            f"convert_timestamp_to_unix_nano({want!r}) = {ns}, the instant "
            f"is {1000*us} ns (off by {ns - 1000*us} ns)")
    back = to_s(ns)
    if back != want:
        raise Violation(
            f"PV -> OTel -> PV round trip of {want!r} gives {back!r}")
    # the same instant written with a shorter fraction (trailing zeros
    # dropped, e.g. millisecond precision) or without one
    frac = want[20:26].rstrip("0")
    variants = set()
    if frac == "":
        variants.add(want[:19] + "Z")
        variants.add(want[:19] + ".0Z")
    else:
        variants.add(want[:20] + frac + "Z")
        if len(frac) < 3:
            variants.add(want[:20] + frac.ljust(3, "0") + "Z")
    for v in sorted(variants):
        try:
            ns2 = to_ns(v)
        except Exception as e:
            raise Violation(f"convert_timestamp_to_unix_nano({v!r}) raised "
                            f"{type(e).__name__}: {e}")
        if abs(ns2 - 1000 * us) >= 500:
            raise Violation(
                f"convert_timestamp_to_unix_nano({v!r}) = {ns2}, the instant "
                f"is {1000*us} ns (same instant as {want!r})")


def check_pair(a: int, b: int) -> None:
    to_s, _ = _funcs()
    if a > b:
        a, b = b, a
    sa, sb = to_s(a), to_s(b)
    for x, s in ((a, sa), (b, sb)):
        try:
            u = ref_us_of_string(s)
        except Exception as e:
            raise Violation(f"unix_nano_to_pv_string({x}) = {s!r} is not a "
                            f"fixed-width PV timestamp ({e})")
        if abs(1000 * u - x) > 1000:
            raise Violation(
                f"unix_nano_to_pv_string({x}) = {s!r} is {1000*u - x} ns "
                f"away from the input (more than 1 us)")
    if a < b and not sa <= sb:
        raise Violation(
            f"order not preserved: {a} < {b} but {sa!r} > {sb!r}")


def run_case(case):
    if case.get("tz") is not None:
        import os
        import time
        if os.environ.get("TZ") != case["tz"]:
            os.environ["TZ"] = case["tz"]
            time.tzset()
    if case["kind"] == "us":
        check_us(case["us"])
    else:
        check_pair(case["a"], case["b"])


def replay(case):
    try:
        run_case(case)
    except Violation as v:
        return str(v)
    return None


def boundary_us():
    anchors = [
        datetime(1970, 1, 1), datetime(2024, 2, 29, 12, 0, 0),
        datetime(2038, 1, 19, 3, 14, 7), datetime(2099, 12, 31, 23, 59, 59),
        datetime(2000, 2, 29, 23, 59, 59), datetime(2001, 9, 9, 1, 46, 40),
    ]
    fr = [0, 1, 499_999, 500_000, 500_001, 999_999]
    out = set()
    for a in anchors:
        base = int((a - EPOCH).total_seconds()) * 10**6
        for f in fr:
            for d in (-2, -1, 0, 1, 2):
                u = base + f + d
                if 0 <= u < MAX_US:
                    out.add(u)
    out.update(range(0, 10_000))
    for k in range(0, 40):
        out.add(k * 10**6)
        out.add(k * 10**6 + 999_999)
    return sorted(out)


def plan(tier):
    return {"shards": 4 if tier == "quick" else 16, "budget_s": 300,
            "coverage": {"bounds": "instants 1970-01-01 .. 2100-01-01"}}


def shrinker(case):
    if case["kind"] == "us":
        u = case["us"]
        sec, frac = divmod(u, 10**6)
        for c in (frac, 86400 * 10**6 + frac, (sec % 86400) * 10**6 + frac,
                  sec * 10**6 + (frac // 1000) * 1000,
                  sec * 10**6 + 500_000, sec * 10**6 + 1):
            if c != u and 0 <= c < MAX_US:
                yield {"kind": "us", "us": c}


TZS = [None, "EST5EDT,M3.2.0,M11.1.0", "JST-9", "<+0330>-3:30",
       "NZST-12NZDT,M9.5.0,M4.1.0/3", "UTC0"]


def run_shard(ctx):
    from hypothesis import strategies as st
    # the conversions must not depend on the time zone of the process
    import os
    import time
    tz = TZS[ctx.shard % len(TZS)]
    if tz is not None:
        os.environ["TZ"] = tz
        time.tzset()
    ctx.count("shards_with_TZ=" + str(tz))
    n = 3000 if ctx.tier == "quick" else 40000

    def fn(case):
        if tz is not None:
            case["tz"] = tz
        if case["kind"] == "us":
            nt = case["us"] % 10**6 != 0
        else:
            nt = case["a"] % 10**9 != 0 or case["b"] % 10**9 != 0
        ctx.record(case, nt, [case["kind"]])
        run_case(case)

    if ctx.shard == 1 % ctx.nshards:
        # sub-microsecond neighbourhood of second boundaries: the string must
        # stay a fixed-width timestamp within 1 us of the input and ordered
        anchors = [0, 1, 59, 86399, 951782400, 1700000000, 2147483647,
                   4102444799 - 1]
        for sec in anchors:
            base = sec * 10**9
            offs = sorted(set(list(range(999_999_000, 1_000_000_000, 7))
                              + [999_999_404, 999_999_499, 999_999_500,
                                 999_999_501, 999_999_880, 999_999_999,
                                 499_999_499, 499_999_500, 499_999_501]))
            prev = None
            for o in offs:
                x = base + o
                case = {"kind": "pair", "a": prev if prev is not None else x,
                        "b": x}
                prev = x
                ctx.count("ns_boundary_enumerated")
                try:
                    fn(case)
                except Violation as v:
                    ctx.violation(case, str(v))
                    return
    if ctx.shard == 0:
        for u in boundary_us():
            case = {"kind": "us", "us": u}
            ctx.count("boundary_enumerated")
            try:
                fn(case)
            except Violation as v:
                ctx.violation(case, str(v))
                return

    us = st.one_of(
        st.integers(0, MAX_US - 1),
        st.builds(lambda s, f: s * 10**6 + f,
                  st.integers(0, MAX_US // 10**6 - 1),
                  st.sampled_from([0, 1, 999, 1000, 499_999, 500_000,
                                   500_001, 999_000, 999_999])),
        st.builds(lambda d, f: d * 86400 * 10**6 + f,
                  st.integers(0, MAX_US // (86400 * 10**6) - 1),
                  st.integers(0, 999_999)),
    )
    ns = st.integers(0, MAX_US * 1000 - 1)
    near = st.builds(lambda a, d: (a, min(MAX_US * 1000 - 1, a + d)), ns,
                     st.integers(1, 3000))
    # just below a second boundary, sub-microsecond resolution
    edge = st.builds(lambda sec, d, e: (max(0, sec * 10**9 - d),
                                        max(0, sec * 10**9 - d) + e),
                     st.integers(1, MAX_US // 10**6 - 1),
                     st.integers(1, 1500), st.integers(0, 1500))
    cases = st.one_of(
        st.builds(lambda u: {"kind": "us", "us": u}, us),
        st.builds(lambda a, b: {"kind": "pair", "a": min(a, b),
                                "b": max(a, b)}, ns, ns),
        st.builds(lambda p: {"kind": "pair", "a": p[0], "b": p[1]}, near),
        st.builds(lambda p: {"kind": "pair", "a": p[0], "b": p[1]}, edge),
    )
    ctx.run_given(cases, fn, n, shrinker=shrinker)
