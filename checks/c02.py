"""C02 - the learned diagram admits nothing beyond a complete sample."""
import random

from vlib import gen, learn, pumlsem as ps, pvcase
from vlib.runner import Violation

ID = "C02"
LEVEL = "exploration"
RULE = (
    "a case is (definition, schedule seed) with the COMPLETE execution set "
    "at loop bound 2 (loops once and twice); definitions generated from the "
    "block grammar (<=16 event types) or taken from the corpus. The real "
    "learner is run, the emitted diagram is executed by the reference "
    "semantics with every loop run once and twice (all executions up to "
    "3000, a seeded sample of 3000 above) and each must be accepted by the "
    "source definition. Branch order and position relative to break are "
    "invisible to the oracle by construction. Non-trivial: the definition "
    "has an OR fork, nested forks of different kinds, or a loop. Cases in "
    "which the learner fails or rejects its own input are C01's business "
    "and counted, not judged, here.")
ASSUMPTIONS = [
    "two families are enumerated completely on every run in addition to the "
    "drawn cases: 1000 loop/break shapes and 320 nested-fork shapes "
    "(vlib/gen.py loop_shapes, fork_shapes; complete job sets)",
    "vlib/pumlsem.py is the meaning of the dialect for source and output",
    "language inclusion is bounded: loops of the emitted diagram run <=2 "
    "times, at most 3000 executions per case",
    "cases whose input satisfies an open known-finding predicate are not "
    "executed",
]
EXHAUSTIVE = ()   # the loop-shape family is enumerated completely, see counters
OUT_CAP = 3000


def nontrivial(ast):
    kinds = set()
    nested_diff = False
    for n in ps.walk(ast):
        if isinstance(n, ps.Loop):
            return True
        if isinstance(n, ps.Fork):
            kinds.add(n.kind)
            if n.kind == "OR":
                return True
            for b in n.branches:
                for x in ps.walk(b):
                    if isinstance(x, ps.Fork) and x.kind != n.kind:
                        nested_diff = True
    return nested_diff


def run_case(case, ctx=None):
    m = pvcase.materialise(case)
    if m.too_large or not m.jobs or len(m.all_jobs) > pvcase.JOB_CAP:
        if ctx:
            ctx.count("skipped_too_large")
        return
    fam = pvcase.known_family(case, m, "C02")
    if fam and not case.get("force"):
        if ctx:
            ctx.exclude(fam)
        return
    if ctx:
        ctx.record(case, nontrivial(m.ast), pvcase.case_classes(case, m),
                   sample={"definition": ps.show(m.ast),
                           "jobs": len(m.jobs)})
    r = learn.learn_jobs(m.jobs, "job", case["sched"])
    if r[0] != "ok":
        if ctx:
            ctx.count("learner_failed_(C01)")
        return
    try:
        oast = ps.parse_puml(r[1])
    except ps.PumlSyntaxError:
        if ctx:
            ctx.count("output_unparsable_(C05)")
        return
    src_names = set(ps.event_names(m.ast))
    extra_names = set(ps.event_names(oast)) - src_names
    if extra_names:
        raise Violation(f"emitted diagram names events that the definition "
                        f"does not have: {sorted(extra_names)}\n" + r[1])
    outs = []
    for j in ps.enumerate_jobs(oast, 2, limit=4 * OUT_CAP):
        outs.append(j)
    if len(outs) > OUT_CAP:
        rng = random.Random(case["sched"])
        outs = rng.sample(outs, OUT_CAP)
        if ctx:
            ctx.count("output_language_sampled")
    if ctx:
        ctx.count("output_jobs_checked", len(outs))
    for g in outs:
        try:
            ok = ps.accepts(m.ast, g)
        except ps.AcceptBudget:
            if ctx:
                ctx.count("acceptor_budget_exceeded")
            continue
        if not ok:
            raise Violation(
                "the emitted diagram admits a job that the source definition "
                f"rejects: {ps.job_to_json(g)}\nsource:\n{ps.show(m.ast)}\n"
                f"emitted:\n{r[1]}")


def replay(case):
    try:
        run_case(dict(case, force=True))
    except Violation as v:
        return str(v)
    return None


def plan(tier):
    return {"shards": 16, "budget_s": 240 if tier == "quick" else 3000,
            "hashseeds": [0, 1, 2, 3],
            "coverage": {"bounds": "<=16 event types, <=400 input jobs, "
                         "emitted language explored with loops <=2 and "
                         "<=3000 executions"}}


def run_shard(ctx):
    files = pvcase.corpus_files()
    for i, (name, _) in enumerate(files):
        if i % ctx.nshards != ctx.shard:
            continue
        case = {"corpus": name, "k": 2, "pick": None,
                "sched": ctx.seed * 1000 + i}
        try:
            run_case(case, ctx)
        except Violation as v:
            ctx.violation(case, str(v))
            return
    # exhaustive nested-fork family (320 definitions, complete sets)
    for tag, case in pvcase.fork_shape_cases(ctx.seed, ctx.shard,
                                             ctx.nshards):
        ctx.count("fork_shapes_enumerated")
        try:
            run_case(dict(case, k=2) if ID == "C02" else case, ctx)
        except Violation as v:
            ctx.violation(case, f"[fork shape {tag}] " + str(v))
            return
    # directly nested (bunched) forks (24 definitions, outside F)
    for i, (tag, ast) in enumerate(gen.bunched_fork_shapes()):
        if i % ctx.nshards != ctx.shard:
            continue
        case = {"defn": ps.to_json(ast), "k": 2 if ID == "C02" else 1,
                "pick": None, "sched": ctx.seed * 1000 + i}
        ctx.count("bunched_fork_shapes_enumerated")
        try:
            run_case(case, ctx)
        except Violation as v:
            ctx.violation(case, f"[bunched shape {tag}] " + str(v))
            return
    # loops ending in a fork inside nested forks (24 definitions)
    for i, (tag, ast) in enumerate(gen.deep_loop_fork_shapes()):
        if i % ctx.nshards != ctx.shard:
            continue
        case = {"defn": ps.to_json(ast), "k": 2, "pick": None,
                "sched": ctx.seed * 1000 + i}
        ctx.count("deep_loop_fork_shapes_enumerated")
        try:
            run_case(case, ctx)
        except Violation as v:
            ctx.violation(case, f"[deep shape {tag}] " + str(v))
            return
    # richer break decisions (forks / loops inside the break branch)
    for tag, case in pvcase.break_branch_cases(ctx.seed, ctx.shard,
                                               ctx.nshards, False):
        ctx.count("break_branch_shapes_enumerated")
        try:
            run_case(case, ctx)
        except Violation as v:
            ctx.violation(case, f"[break branch shape {tag}] " + str(v))
            return
    # exhaustive loop/break family (1000 definitions, complete sets, k=2)
    for tag, case in pvcase.loop_shape_cases(ctx.seed, ctx.shard,
                                             ctx.nshards):
        ctx.count("loop_shapes_enumerated")
        try:
            run_case(case, ctx)
        except Violation as v:
            ctx.violation(case, f"[loop shape {tag}] " + str(v))
            return
    n = 120 if ctx.tier == "quick" else 3000
    ctx.run_given(pvcase.cases(subset=False, ks=(2,)),
                  lambda c: run_case(c, ctx), n, shrinker=pvcase.shrinker)
