"""C08 - call trees are sequenced exactly as the sequencing rules specify."""
import itertools

from vlib import refseq
from vlib.runner import Violation

ID = "C08"
LEVEL = "exploration"
RULE = (
    "(a) complete enumeration: every increasing parent array on 2..4 spans x "
    "every assignment of [start,end] (start<=end) from a 6-point grid to the "
    "non-root spans with distinct sibling starts x {sync, async}; "
    "(b) Hypothesis: rooted trees of <=30 spans, types from a 5-letter "
    "alphabet, sibling starts distinct, drawn prior-information group maps "
    "and rename maps (keys, mapped names and group-map types disjoint, except "
    "that a mapped name may be the key of the other entry (chained entries) and "
    "in a third of the cases with both maps where groups may name mapped "
    "types: the pipeline renames the whole trace before sequencing it, so "
    "prior information sees mapped types; "
    "see DESIGN 5 C08), drawn stream order and child-id order. Oracle: "
    "vlib/refseq.py (reference sequencer written from sequencer_HOWTO.md): "
    "one PV event per span, all seven fields equal, previousEventIds equal "
    "as sets; model-free: acyclic, every span after all its descendants, one "
    "start event in sync mode without groups. Non-trivial: some parent has "
    ">=3 children with >=1 overlapping pair, or a config map matches a span. "
    "Distinct by the serialised case.")
ASSUMPTIONS = [
    "reference sequencer vlib/refseq.py follows docs/user/sequencer_HOWTO.md; "
    "windows are closed intervals (touching windows overlap)",
    "in async mode the window of a prior-information group is "
    "[min start, max end] of its members",
]
EXHAUSTIVE = ()
BASE_NS = 1_700_000_000_000_000_000


# ---- case -> inputs ------------------------------------------------------
def spans_of(case):
    spans = {}
    for sid, typ, start, end, parent in case["spans"]:
        spans[sid] = dict(type=typ, start=BASE_NS + start * 1000,
                          end=BASE_NS + end * 1000, parent=parent,
                          app="app_" + typ, job_id="job-1", job_name="wf")
    return spans


def run_real(case):
    from tel2puml.otel_to_pv.otel_to_pv_types import OTelEvent, OTelEventTypeMap
    from tel2puml.otel_to_pv.sequence_otel import sequence_otel_job_id_streams
    spans = spans_of(case)
    ch = refseq.children_of(spans)
    corder = case.get("child_order_rev", False)
    events = []
    ids = [s[0] for s in case["spans"]]
    order = case.get("order") or list(range(len(ids)))
    for k in order:
        i = ids[k]
        s = spans[i]
        kids = list(ch[i])
        if corder:
            kids.reverse()
        events.append(OTelEvent(
            job_name=s["job_name"], job_id=s["job_id"], event_type=s["type"],
            event_id=i, start_timestamp=s["start"], end_timestamp=s["end"],
            application_name=s["app"], parent_event_id=s["parent"],
            child_event_ids=kids))
    groups = case.get("groups") or None
    rename = case.get("rename") or None
    rename_info = None
    if rename:
        rename_info = {k: OTelEventTypeMap(mapped_event_type=v[0],
                                           child_event_types=set(v[1]))
                       for k, v in rename.items()}
    out = sequence_otel_job_id_streams(
        [iter(events)], async_flag=case["async"],
        event_to_async_group_map=groups,
        event_types_map_information=rename_info)
    jobs = [list(j) for j in out]
    return spans, jobs


def check_case(case):
    try:
        spans, jobs = run_real(case)
    except Exception as e:
        raise Violation(f"sequencing raised {type(e).__name__}: {e}")
    if len(jobs) != 1:
        raise Violation(f"{len(jobs)} PV jobs for one trace")
    job = jobs[0]
    rename = {k: (v[0], set(v[1])) for k, v in (case.get("rename") or {}).items()}
    want = refseq.expected_pv(spans, case["async"], case.get("groups") or None,
                              rename or None)
    got_ids = [e["eventId"] for e in job]
    if sorted(got_ids) != sorted(want):
        raise Violation(f"events {sorted(got_ids)} != spans {sorted(want)}")
    for e in job:
        w = want[e["eventId"]]
        for f in ("jobId", "eventType", "timestamp", "applicationName",
                  "jobName"):
            if e[f] != w[f]:
                raise Violation(
                    f"span {e['eventId']}: {f} = {e[f]!r}, expected {w[f]!r}")
        got_prev = e.get("previousEventIds", [])
        if set(got_prev) != set(w["previousEventIds"]):
            raise Violation(
                f"span {e['eventId']} ({w['eventType']}): previousEventIds "
                f"{sorted(got_prev)} but the documented rules give "
                f"{sorted(w['previousEventIds'])}; async={case['async']}")
    # model-free invariants
    prev = {e["eventId"]: set(e.get("previousEventIds", [])) for e in job}
    # acyclic + transitive closure
    anc = {}

    def closure(i, stack=()):
        if i in anc:
            return anc[i]
        if i in stack:
            raise Violation(f"predecessor links contain a cycle through {i}")
        acc = set()
        for p in prev[i]:
            if p not in prev:
                raise Violation(f"span {i} links to unknown event {p}")
            acc.add(p)
            acc |= closure(p, stack + (i,))
        anc[i] = acc
        return acc

    for i in prev:
        closure(i)
    for i, s in spans.items():
        p = s["parent"]
        while p is not None:
            if i not in anc[p]:
                raise Violation(f"span {p} does not follow its descendant {i}")
            p = spans[p]["parent"]
    if not case["async"] and not case.get("groups"):
        starts = [i for i, p in prev.items() if not p]
        if len(starts) != 1:
            raise Violation(f"sync mode produced {len(starts)} start events")


def replay(case):
    try:
        check_case(case)
    except Violation as v:
        return str(v)
    return None


# ---- classification ------------------------------------------------------
def classify(case):
    spans = {s[0]: s for s in case["spans"]}
    ch = {}
    for sid, typ, st, en, par in case["spans"]:
        if par is not None:
            ch.setdefault(par, []).append(sid)
    classes = ["async" if case["async"] else "sync"]
    nontrivial = False
    masked = False
    for p, kids in ch.items():
        ks = sorted(kids, key=lambda i: spans[i][2])
        overlap = any(spans[a][3] >= spans[b][2]
                      for a, b in itertools.combinations(ks, 2))
        if len(ks) >= 3 and overlap:
            nontrivial = True
        # a long span overlapping a later sibling that an earlier-ending
        # sibling precedes
        for x in range(len(ks)):
            for y in range(x + 1, len(ks)):
                for z in range(y + 1, len(ks)):
                    a, b, c = spans[ks[x]], spans[ks[y]], spans[ks[z]]
                    if a[3] >= c[2] and b[3] < c[2] and a[3] >= b[2]:
                        masked = True
    if masked:
        classes.append("long_span_overlaps_later_sibling")
    types = {s[1] for s in case["spans"]}
    if case.get("groups"):
        hit = False
        for pt, m in case["groups"].items():
            for p, kids in ch.items():
                if spans[p][1] == pt and sum(1 for k in kids if spans[k][1] in m) >= 2:
                    hit = True
        if hit:
            classes.append("group_map_matches")
            nontrivial = True
    if case.get("maps_overlap"):
        classes.append("rename_and_group_maps_overlap")
    if case.get("rename_chain"):
        classes.append("rename_entries_chained")
    if case.get("rename"):
        hit = False
        for t, (m, listed) in case["rename"].items():
            for p, kids in ch.items():
                if spans[p][1] == t and any(spans[k][1] in listed for k in kids):
                    hit = True
        if hit:
            classes.append("rename_applies")
            nontrivial = True
        elif set(case["rename"]) & types:
            classes.append("rename_key_present_not_applied")
    classes.append("spans<=4" if len(spans) <= 4 else
                   "spans<=10" if len(spans) <= 10 else "spans>10")
    return nontrivial, classes


# ---- exhaustive part -----------------------------------------------------
GRID = 6


def small_cases():
    ivs = [(s, e) for s in range(GRID) for e in range(s, GRID)]
    for n in (2, 3, 4):
        for parents in itertools.product(*[range(i) for i in range(1, n)]):
            parents = (None,) + parents
            sib = {}
            for i, p in enumerate(parents):
                if p is not None:
                    sib.setdefault(p, []).append(i)
            for assign in itertools.product(ivs, repeat=n - 1):
                ok = True
                for kids in sib.values():
                    st = [assign[k - 1][0] for k in kids]
                    if len(set(st)) != len(st):
                        ok = False
                        break
                if not ok:
                    continue
                spans = [["s0", "T0", 0, GRID - 1, None]]
                for i in range(1, n):
                    spans.append([f"s{i}", f"T{i}", assign[i - 1][0],
                                  assign[i - 1][1], f"s{parents[i]}"])
                for a in (False, True):
                    yield {"spans": spans, "async": a}


# ---- strategy ------------------------------------------------------------
ALPHA = ["A", "B", "C", "D", "E"]


def case_strategy():
    from hypothesis import strategies as st

    @st.composite
    def build(draw):
        n = draw(st.integers(2, 30))
        # bias to bushy trees: parent index drawn with a bias to small indices
        parents = [None]
        for i in range(1, n):
            if draw(st.integers(0, 2)) == 0:
                parents.append(draw(st.integers(0, i - 1)))
            else:
                parents.append(draw(st.integers(0, min(i - 1, 3))))
        sib = {}
        for i, p in enumerate(parents):
            if p is not None:
                sib.setdefault(p, []).append(i)
        start = [0] * n
        end = [0] * n
        end[0] = 1000
        for p, kids in sib.items():
            starts = draw(st.lists(st.integers(0, 40), min_size=len(kids),
                                   max_size=len(kids), unique=True))
            for k, s in zip(kids, starts):
                start[k] = s
                end[k] = s + draw(st.one_of(st.integers(0, 6),
                                            st.integers(0, 45)))
        types = [draw(st.sampled_from(ALPHA)) for _ in range(n)]
        spans = [[f"s{i}", types[i], start[i], end[i],
                  None if parents[i] is None else f"s{parents[i]}"]
                 for i in range(n)]
        case = {"spans": spans, "async": draw(st.booleans())}
        mode = draw(st.integers(0, 3))
        rename_keys = []
        if mode in (2, 3):
            rename_keys = draw(st.lists(st.sampled_from(ALPHA), min_size=1,
                                        max_size=2, unique=True))
            rest = [a for a in ALPHA if a not in rename_keys]
            case["rename"] = {
                k: ["M_" + k, draw(st.lists(st.sampled_from(rest), min_size=1,
                                            max_size=2, unique=True))]
                for k in rename_keys}
            if len(rename_keys) == 2 and draw(st.integers(0, 2)) == 0:
                # chained entries: the mapped type of one entry is the key
                # of the other.  Renaming is one pass over the trace, a
                # span is looked at once (listed child types are never
                # renamed themselves, so the pass order does not matter)
                case["rename"][rename_keys[0]][0] = rename_keys[1]
                case["rename_chain"] = True
        if mode in (1, 3):
            rest = [a for a in ALPHA if a not in rename_keys]
            if rename_keys and draw(st.integers(0, 2)) == 0:
                # the two maps meet: groups may name mapped types (and the
                # original types of renamed spans).  The pipeline renames the
                # whole trace before it sequences it, so prior information
                # sees the mapped types - the reference does the same.
                rest = rest + ["M_" + k for k in rename_keys] + rename_keys
                case["maps_overlap"] = True
            pk = draw(st.lists(st.sampled_from(rest), min_size=1, max_size=2,
                               unique=True))
            groups = {}
            for p in pk:
                cts = draw(st.lists(st.sampled_from(rest), min_size=1,
                                    max_size=3, unique=True))
                # labels may coincide with span ids (s0, s1, ...): a label
                # names a group, never a span
                groups[p] = {c: draw(st.sampled_from(["g1", "g2", "s1", "s2"]))
                             for c in cts}
            case["groups"] = groups
        case["order"] = draw(st.permutations(list(range(n))))
        case["child_order_rev"] = draw(st.booleans())
        return case

    return build()


def shrinker(case):
    spans = case["spans"]
    parents = {s[4] for s in spans}
    # drop a leaf
    for i in range(len(spans) - 1, 0, -1):
        if spans[i][0] not in parents:
            c = dict(case)
            c["spans"] = spans[:i] + spans[i + 1:]
            c.pop("order", None)
            yield c
    for key in ("groups", "rename"):
        if case.get(key):
            c = dict(case)
            c.pop(key)
            yield c
    if case.get("order"):
        c = dict(case)
        c.pop("order")
        yield c
    if case.get("child_order_rev"):
        c = dict(case)
        c["child_order_rev"] = False
        yield c


def plan(tier):
    return {"shards": 16, "budget_s": 240 if tier == "quick" else 3000,
            "coverage": {"bounds": "exhaustive: <=4 spans on a 6-point grid; "
                         "drawn: <=30 spans, 5 types, starts 0..40us"}}


def run_shard(ctx):
    def fn(case):
        nt, classes = classify(case)
        ctx.record(case, nt, classes)
        check_case(case)

    # exhaustive small part (quick: n<=3 on all shards + n=4 strided sample;
    # thorough: everything)
    idx = 0
    for case in small_cases():
        idx += 1
        if idx % ctx.nshards != ctx.shard:
            continue
        if ctx.tier == "quick" and len(case["spans"]) == 4 and (idx // ctx.nshards) % 8 != ctx.seed % 8:
            continue
        ctx.count("small_enumerated")
        try:
            fn(case)
        except Violation as v:
            ctx.violation(case, str(v))
            return
    n = 600 if ctx.tier == "quick" else 8000
    ctx.run_given(case_strategy(), fn, n, shrinker=shrinker)
