"""C11 - cleaning removes exactly the broken or out-of-window traces."""
from vlib import refseq, store
from vlib.runner import Violation

ID = "C11"
LEVEL = "exploration"
RULE = (
    "stores of 1..8 traces (1..6 spans each, timestamps on a 30 s grid over "
    "~0..20 min) mixing: complete traces, traces with a span whose parent id "
    "occurs in no trace, traces whose spans carry differing workflow names, "
    "traces placed inside / outside / straddling / touching the buffered "
    "window; time_buffer in {0,1,2,5} minutes; drawn ingestion order and "
    "batch size; span ids plain or, in a third of the stores, composite "
    "with punctuation; a third of the stores write the root's parent id as \"\"; a "
    "third are filled by two runs against one sqlite file (window of a run = "
    "what that run ingested, so traces of the earlier run may fall outside). Run: the real otel_to_pv(ingest_data=True) with only the "
    "data source replaced by the generated span list (so the real cleaning "
    "order and statements run), then the nodes table is read. Oracle: "
    "reference model (window from min start/max end of everything ingested, "
    "inclusive bounds; survivors = no dangling parent and some span start or "
    "end inside; survivors renamed to the root's workflow name, all other "
    "columns unchanged) and metamorphic: PV sequences of the survivors equal "
    "those of a second store that ingested only the survivors (buffer 0) and "
    "the reference sequencer. Non-trivial: >=1 removed and >=1 kept trace, "
    "or a trace with inconsistent names that survives. Distinct by "
    "serialised case.")
ASSUMPTIONS = [
    "every trace has exactly one root span (first occurrences); parent ids "
    "are in the same trace or in no trace; a third of the cases repeat span "
    "ids with another parent later in the stream - the first occurrence is "
    "what is stored (C10), so cleaning must behave as if the later copies "
    "had never been sent",
    "an empty buffered window is answered by ValueError (documented)",
]
EXHAUSTIVE = ()
STEP = 30 * 10**9
MIN = 60 * 10**9
BASE = 1_700_000_000 * 10**9 + 123_000  # whole us, not a multiple of 256 ns: such
#                                        values are not exact in a double


def is_root(parent):
    # OTLP/JSON exporters write "parentSpanId": "" for a root span; the
    # tool stores that as NULL like a missing field
    return parent is None or parent == ""


def all_spans(case):
    out = []
    empty = set(case.get("empty_roots") or [])
    for ti, tr in enumerate(case["traces"]):
        for s in tr["spans"]:
            if s[1] is None and ti in empty:
                s = [s[0], ""] + list(s[2:])
            out.append(dict(event_id=s[0], parent_event_id=s[1],
                            event_type=s[2], job_name=s[3],
                            start_timestamp=BASE + s[4] * STEP,
                            end_timestamp=BASE + s[5] * STEP,
                            job_id=tr["id"], application_name="app"))
    order = case.get("order")
    if order and len(order) == len(out):
        out = [out[i] for i in order]
    # repeated span ids: a later occurrence with another parent (possibly a
    # parent that exists nowhere) placed somewhere after the first one
    for d in case.get("dups", []):
        ti, k = d["of"]
        if ti >= len(case["traces"]) or k >= len(case["traces"][ti]["spans"]):
            continue
        sid = case["traces"][ti]["spans"][k][0]
        pos = next(i for i, s in enumerate(out) if s["event_id"] == sid)
        dup = dict(out[pos], parent_event_id=d["parent"],
                   event_type=d.get("type", out[pos]["event_type"]))
        at = pos + 1 + d["after"] % (len(out) - pos)
        out.insert(at, dup)
    return out


def first_occurrences(spans):
    seen, out = set(), []
    for s in spans:
        if s["event_id"] not in seen:
            seen.add(s["event_id"])
            out.append(s)
    return out


def deliveries(case):
    """[(spans, buffer)] - one run, or two runs against one sqlite file (the
    first `first` traces with buffer 0, then the others)."""
    spans = all_spans(case)
    k = case.get("first") or 0
    if not k or k >= len(case["traces"]) or case.get("dups"):
        return [(spans, case["buffer"])]
    ids1 = {t["id"] for t in case["traces"][:k]}
    d1 = [s for s in spans if s["job_id"] in ids1]
    d2 = [s for s in spans if s["job_id"] not in ids1]
    if min(s["start_timestamp"] for s in d1) >= \
            max(s["end_timestamp"] for s in d1):
        return [(spans, case["buffer"])]      # first run's window is empty
    return [(d1, 0), (d2, case["buffer"])]


def model(case):
    """Reference model of the store after the last run."""
    stored = []
    keep = removed = None
    all_removed = {}
    for part, buffer in deliveries(case):
        keep, removed = model_run(stored, part, buffer)
        if keep is None:
            return None, None
        all_removed.update(removed)
        stored = [s for ss in keep.values() for s in ss]
    return keep, all_removed


def model_run(stored, delivered, buffer):
    """One run: `delivered` is ingested into a store holding `stored`; the
    window is taken from what this run ingested."""
    delivered = first_occurrences(delivered)
    spans = stored + delivered
    lo = min(s["start_timestamp"] for s in delivered) + buffer * MIN
    hi = max(s["end_timestamp"] for s in delivered) - buffer * MIN
    if lo >= hi:
        return None, None
    ids = {s["event_id"] for s in spans}
    by_trace = {}
    for s in spans:
        by_trace.setdefault(s["job_id"], []).append(s)
    keep = {}
    removed = {}
    for tid, ss in by_trace.items():
        dangling = any(not is_root(s["parent_event_id"])
                       and s["parent_event_id"] not in ids for s in ss)
        inside = any(lo <= s["start_timestamp"] <= hi
                     or lo <= s["end_timestamp"] <= hi for s in ss)
        if dangling:
            removed[tid] = "dangling"
        elif not inside:
            removed[tid] = "window"
        else:
            root = [s for s in ss if is_root(s["parent_event_id"])][0]
            keep[tid] = [dict(s, job_name=root["job_name"],
                              parent_event_id=s["parent_event_id"] or None)
                         for s in ss]
    return keep, removed


def run_pipeline(spans, buffer, batch, db_uri="sqlite:///:memory:"):
    """real otel_to_pv with the generated spans as data source; returns
    (nodes table, {job_id: [pv events]}, {job_id: name streamed under})."""
    from tel2puml.otel_to_pv.config import load_config_from_dict
    import tel2puml.otel_to_pv.otel_to_pv as o2p
    cfg = load_config_from_dict({
        "ingest_data": {"data_source": "json", "data_holder": "sql"},
        "data_holders": {"sql": {"db_uri": db_uri,
                                 "batch_size": batch, "time_buffer": buffer}},
        "data_sources": {"json": {"dirpath": "/", "filepath": None,
                                  "json_per_line": False,
                                  "field_mapping": None, "jq_query": "."}},
    })
    holder_box = {}

    def fake_ingest(config):
        h = store.new_holder(batch_size=config.data_holders["sql"].batch_size,
                             time_buffer=config.data_holders["sql"].time_buffer,
                             db_uri=config.data_holders["sql"].db_uri)
        store.ingest(h, [store.otel_event(
            s["event_id"], s["parent_event_id"], s["event_type"], s["job_id"],
            s["job_name"], s["start_timestamp"], s["end_timestamp"],
            s["application_name"]) for s in spans])
        holder_box["h"] = h
        return h

    orig = o2p.ingest_data_into_dataholder
    o2p.ingest_data_into_dataholder = fake_ingest
    try:
        gen = o2p.otel_to_pv(cfg, ingest_data=True)
        jobs, names = {}, {}
        for name, streams in gen:
            for job in streams:
                evs = list(job)
                if not evs:
                    continue
                jid = evs[0]["jobId"]
                if jid in jobs:
                    raise Violation(f"trace {jid} streamed twice")
                jobs[jid] = evs
                names[jid] = name
        nodes = store.read_nodes(holder_box["h"])
        return nodes, jobs, names
    finally:
        o2p.ingest_data_into_dataholder = orig
        if "h" in holder_box:
            store.dispose(holder_box["h"])


def canon_job(evs):
    return sorted((e["eventId"], e["eventType"], e["jobId"], e["jobName"],
                   e["applicationName"], e["timestamp"],
                   tuple(sorted(e.get("previousEventIds", []))))
                  for e in evs)


def check_case(case):
    spans = all_spans(case)
    keep, removed = model(case)
    runs = deliveries(case)
    try:
        if len(runs) == 1:
            nodes, jobs, names = run_pipeline(spans, case["buffer"],
                                              case["batch"])
        else:
            with store.TempDB() as db:
                for part, buffer in runs:
                    nodes, jobs, names = run_pipeline(part, buffer,
                                                      case["batch"], db.uri)
    except ValueError as e:
        if keep is None:
            return
        raise Violation(f"cleaning raised ValueError: {e} although the "
                        f"buffered window is not empty")
    except Violation:
        raise
    except Exception as e:
        raise Violation(f"otel_to_pv raised {type(e).__name__}: {e}")
    if keep is None:
        # empty window answered without an error: nothing may survive
        if nodes:
            raise Violation("empty buffered window but spans survived without "
                            "a ValueError")
        return
    want = {s["event_id"]: s for ss in keep.values() for s in ss}
    got = {}
    for r in nodes:
        got[r["event_id"]] = r
    if set(got) != set(want):
        extra = sorted(set(got) - set(want))
        lost = sorted(set(want) - set(got))
        why = {t: removed[t] for t in removed}
        raise Violation(
            f"after cleaning: spans that should have been removed still "
            f"present: {extra}; spans wrongly removed: {lost}; model removes "
            f"traces {why}; buffer={case['buffer']}min")
    for i, w in want.items():
        for k in store.NODE_COLS:
            if got[i][k] != w[k]:
                raise Violation(
                    f"after cleaning: span {i} column {k} = {got[i][k]!r}, "
                    f"expected {w[k]!r}")
    # streams
    if set(jobs) != set(keep):
        raise Violation(f"streamed traces {sorted(jobs)} != surviving traces "
                        f"{sorted(keep)}")
    for tid, ss in keep.items():
        if names[tid] != ss[0]["job_name"]:
            raise Violation(f"trace {tid} streamed under {names[tid]!r}, its "
                            f"root says {ss[0]['job_name']!r}")
        ref_spans = {s["event_id"]: dict(
            type=s["event_type"], start=s["start_timestamp"],
            end=s["end_timestamp"], parent=s["parent_event_id"],
            app=s["application_name"], job_id=tid, job_name=s["job_name"])
            for s in ss}
        wantpv = refseq.expected_pv(ref_spans)
        g = canon_job(jobs[tid])
        w = canon_job(wantpv.values())
        if g != w:
            raise Violation(f"trace {tid}: PV sequence after cleaning differs "
                            f"from the reference sequence: {g} vs {w}")
    # metamorphic: never ingested
    survivors = [s for s in spans if s["job_id"] in keep]
    if survivors and removed and (
            min(s["start_timestamp"] for s in survivors)
            < max(s["end_timestamp"] for s in survivors)):
        try:
            _, jobs2, names2 = run_pipeline(survivors, 0, case["batch"])
        except Exception as e:
            raise Violation(f"survivors-only store: {type(e).__name__}: {e}")
        if {t: canon_job(j) for t, j in jobs.items()} != \
                {t: canon_job(j) for t, j in jobs2.items()} or names != names2:
            raise Violation("PV sequences of the survivors differ from a "
                            "store that never ingested the removed traces")


def replay(case):
    try:
        check_case(case)
    except Violation as v:
        return str(v)
    return None


def classify(case):
    keep, removed = model(case)
    classes = [f"buffer={case['buffer']}"]
    if case.get("idsep"):
        classes.append("span_ids_with_punctuation")
    if case.get("dups"):
        classes.append("repeated_span_ids")
        if any(str(d["parent"]).startswith("ghost") for d in case["dups"]):
            classes.append("later_duplicate_has_missing_parent")
    if keep is None:
        return False, classes + ["empty_window"]
    reasons = set(removed.values())
    classes += ["removed_" + r for r in sorted(reasons)]
    incons = False
    for tr in case["traces"]:
        if len({s[3] for s in tr["spans"]}) > 1 and tr["id"] in keep:
            incons = True
    if incons:
        classes.append("inconsistent_names_kept")
    runs = deliveries(case)
    spans = runs[-1][0]
    if case.get("empty_roots"):
        classes.append("root_parent_empty_string")
    if len(runs) == 2:
        classes.append("two_runs_one_store")
        first_ids = {s["job_id"] for s in runs[0][0]}
        if any(t in first_ids and why == "window"
               and t in (model_run([], runs[0][0], 0)[0] or {})
               for t, why in removed.items()):
            classes.append("trace_of_earlier_run_outside_later_window")
    lo = min(s["start_timestamp"] for s in spans) + case["buffer"] * MIN
    hi = max(s["end_timestamp"] for s in spans) - case["buffer"] * MIN
    for tr in case["traces"]:
        st = [BASE + s[4] * STEP for s in tr["spans"]]
        en = [BASE + s[5] * STEP for s in tr["spans"]]
        pts = st + en
        if any(p in (lo, hi) for p in pts):
            classes.append("touches_window_bound")
        if any(a < lo and b > hi for a, b in zip(st, en)):
            classes.append("span_straddles_whole_window")
        if any(lo <= p <= hi for p in pts) and any(p < lo or p > hi for p in pts):
            classes.append("trace_partly_inside")
    nt = (bool(keep) and bool(removed)) or incons
    return nt, sorted(set(classes))


def case_strategy():
    from hypothesis import strategies as st

    @st.composite
    def build(draw):
        buffer = draw(st.sampled_from([0, 0, 1, 2, 5]))
        nt = draw(st.integers(1, 8))
        horizon = draw(st.sampled_from([8, 20, 40]))
        storm = draw(st.integers(0, 5)) == 0
        traces = []
        for ti in range(nt):
            n = draw(st.integers(1, 6))
            name = "wf" + str(draw(st.integers(0, 2)))
            centre = draw(st.integers(0, horizon))
            width = draw(st.sampled_from([0, 1, 2, 6, horizon]))
            spans = []
            used_starts = {}
            for k in range(n):
                parent = None if k == 0 else f"j{ti}s{draw(st.integers(0, k - 1))}"
                a = max(0, centre + draw(st.integers(-width, width)))
                used = used_starts.setdefault(parent, set())
                while a in used:
                    a += 1
                used.add(a)
                b = a + draw(st.integers(0, max(1, width)))
                nm = name
                if draw(st.integers(0, 5)) == 0:
                    nm = "wf" + str(draw(st.integers(0, 3)))
                spans.append([f"j{ti}s{k}", parent, draw(st.sampled_from("ABC")),
                              nm, a, b])
            kind = draw(st.integers(0, 5))
            if storm and kind <= 3:
                kind = 0       # many broken traces (more than a small batch)
            if kind == 0 and n >= 1:
                # dangling parent on a drawn non-root span (or an extra span)
                spans.append([f"j{ti}s{n}", f"ghost{ti}", "G", name,
                              spans[0][4], spans[0][5]])
            traces.append({"id": f"job{ti}", "spans": spans})
        total = sum(len(t["spans"]) for t in traces)
        case = {"traces": traces, "buffer": buffer,
                "batch": draw(st.sampled_from([1, 2, 3, 1000])),
                "order": list(draw(st.permutations(list(range(total)))))}
        if draw(st.integers(0, 2)) == 0:
            dups = []
            for _ in range(draw(st.integers(1, 3))):
                ti = draw(st.integers(0, nt - 1))
                k = draw(st.integers(0, len(traces[ti]["spans"]) - 1))
                kind = draw(st.integers(0, 2))
                parent = (f"ghostdup{ti}" if kind == 0 else
                          None if kind == 1 else
                          f"j{ti}s{draw(st.integers(0, max(0, k - 1)))}")
                dups.append({"of": [ti, k], "parent": parent,
                             "after": draw(st.integers(0, 30))})
            case["dups"] = dups
        elif nt >= 2 and draw(st.integers(0, 1)) == 0:
            # two runs against one sqlite file: the first traces first
            case["first"] = draw(st.integers(1, nt - 1))
        if draw(st.integers(0, 2)) == 0:
            case["empty_roots"] = sorted(draw(st.sets(
                st.integers(0, nt - 1), min_size=1, max_size=nt)))
        sep = draw(st.sampled_from(["", "", "", ",", " ", "'", "%", '"',
                                    ";"]))
        if sep:
            # span ids are arbitrary strings: composite ids "j0,s1" etc.
            import re

            def ren(x):
                return re.sub(r"^(j\d+)s", lambda m: m.group(1) + sep + "s",
                              x) if isinstance(x, str) else x
            for t in traces:
                for sp in t["spans"]:
                    sp[0], sp[1] = ren(sp[0]), ren(sp[1])
            for d in case.get("dups", []):
                d["parent"] = ren(d["parent"])
            case["idsep"] = sep
        return case

    return build()


def shrinker(case):
    tr = case["traces"]
    for i in range(len(tr) - 1, -1, -1):
        if len(tr) > 1:
            c = dict(case, traces=tr[:i] + tr[i + 1:])
            c.pop("order", None)
            yield c
    if case.get("dups"):
        c = dict(case)
        c.pop("dups")
        yield c
        for i in range(len(case["dups"])):
            yield dict(case, dups=case["dups"][:i] + case["dups"][i + 1:])
    for i, t in enumerate(tr):
        ss = t["spans"]
        parents = {s[1] for s in ss}
        for k in range(len(ss) - 1, 0, -1):
            if ss[k][0] not in parents:
                nt = dict(t, spans=ss[:k] + ss[k + 1:])
                c = dict(case, traces=tr[:i] + [nt] + tr[i + 1:])
                c.pop("order", None)
                yield c
    if case.get("order"):
        c = dict(case)
        c.pop("order")
        yield c
    for key in ("first", "empty_roots"):
        if case.get(key):
            c = dict(case)
            c.pop(key)
            yield c


def plan(tier):
    return {"shards": 16, "budget_s": 300 if tier == "quick" else 3600,
            "coverage": {"bounds": "<=8 traces x <=7 spans, 30 s grid, "
                         "buffers 0,1,2,5 min, batch 1,2,3,1000"}}


def run_shard(ctx):
    def fn(case):
        nt, classes = classify(case)
        ctx.record(case, nt, classes)
        check_case(case)
    ctx.run_given(case_strategy(), fn, 250 if ctx.tier == "quick" else 4000,
                  shrinker=shrinker)
