"""C10 - ingestion stores each span once whatever the batching or
duplication."""
from vlib import store
from vlib.runner import Violation

ID = "C10"
LEVEL = "exploration"
RULE = (
    "span streams of 1..14 occurrences over an id pool of 1..6 ids (plain, "
    "with punctuation, or twins up to case / surrounding white space; so "
    "duplicates are dense), every occurrence with its own payload "
    "(type, trace id, name, times, application) and parent (null / a pool id "
    "/ an id never ingested); each stream is ingested with EVERY batch size "
    "1..n+1 into a fresh in-memory store, and with a drawn split point into "
    "two runs (two SQLDataHolder instances) against one sqlite file. Oracle: "
    "dict model - table nodes holds exactly the first occurrence of every id "
    "with all columns equal, NODE_ASSOCIATION exactly (parent, child) of "
    "those first occurrences that have a parent. A second stage is a "
    "Hypothesis rule based state machine: histories of up to 8 ingesting "
    "runs (own holder instance, drawn batch size 1..7, 1..6 occurrences over "
    "5 ids) against one sqlite file with the same comparison after every "
    "run (non-trivial there: >=2 runs with a repeated id); plus "
    "a fixed family of distinct ids that collide pairwise under common 32-bit digests (crc32, adler32, xxh32, truncated md5/sha1/xxh64) and one fixed large history (1100 ids, batch size 1000, ingested twice, then again "
    "with new spans mixed in). Non-trivial: some batch "
    "contains both a duplicate id and a non-duplicate id. Distinct by the "
    "serialised stream + split.")
ASSUMPTIONS = [
    "SQLite without foreign key enforcement (SQLAlchemy default), as shipped",
    "parent ids are null or non-empty strings",
]
EXHAUSTIVE = ()


def mk_events(case):
    return [store.otel_event(e[0], e[1], e[2], e[3], e[4], e[5], e[6], e[7])
            for e in case["events"]]


def model(case):
    first = {}
    for e in case["events"]:
        if e[0] not in first:
            first[e[0]] = e
    # "" as parent id (what OTLP/JSON exporters write for a root) means no
    # parent: stored as NULL, no link
    first = {i: [e[0], e[1] or None] + list(e[2:]) for i, e in first.items()}
    nodes = {i: dict(event_id=e[0], parent_event_id=e[1], event_type=e[2],
                     job_id=e[3], job_name=e[4], start_timestamp=e[5],
                     end_timestamp=e[6], application_name=e[7])
             for i, e in first.items()}
    assoc = sorted((e[1], e[0]) for e in first.values() if e[1] is not None)
    return nodes, assoc


def compare(holder, case, label):
    want_nodes, want_assoc = model(case)
    rows = store.read_nodes(holder)
    got = {}
    for r in rows:
        if r["event_id"] in got:
            raise Violation(f"{label}: span id {r['event_id']} stored twice")
        got[r["event_id"]] = r
    if set(got) != set(want_nodes):
        raise Violation(
            f"{label}: stored ids {sorted(got)} but the distinct ingested ids "
            f"are {sorted(want_nodes)} (lost {sorted(set(want_nodes)-set(got))})")
    for i, w in want_nodes.items():
        g = got[i]
        for k, v in w.items():
            if g[k] != v:
                raise Violation(
                    f"{label}: span {i} column {k} = {g[k]!r}, the first "
                    f"occurrence had {v!r}")
    assoc = store.read_assoc(holder)
    if assoc != want_assoc:
        raise Violation(
            f"{label}: NODE_ASSOCIATION {assoc} but first occurrences give "
            f"{want_assoc}")


def check_case(case):
    events = mk_events(case)
    n = len(events)
    for b in range(1, n + 2):
        h = store.new_holder(batch_size=b)
        try:
            try:
                store.ingest(h, events)
            except Exception as e:
                raise Violation(
                    f"batch_size={b}: ingestion raised {type(e).__name__}: {e}")
            compare(h, case, f"batch_size={b}")
        finally:
            store.dispose(h)
    split = case.get("split")
    if split is not None:
        b = case.get("split_batch", 2)
        with store.TempDB() as db:
            for part in (events[:split], events[split:]):
                h = store.new_holder(batch_size=b, db_uri=db.uri)
                try:
                    store.ingest(h, part)
                except Exception as e:
                    raise Violation(
                        f"two runs split at {split}, batch_size={b}: "
                        f"ingestion raised {type(e).__name__}: {e}")
                finally:
                    last = h
                    store.dispose(h)
            h = store.new_holder(batch_size=b, db_uri=db.uri)
            try:
                compare(h, case, f"two runs split at {split}, batch_size={b}")
            finally:
                store.dispose(h)


def check_steps(case):
    """A history of ingesting runs (each its own SQLDataHolder instance and
    batch size) against one sqlite file; the store is compared with the
    first-occurrence model after every run."""
    sofar = []
    with store.TempDB() as db:
        for k, step in enumerate(case["steps"]):
            sofar += step["events"]
            h = store.new_holder(batch_size=step["batch"], db_uri=db.uri)
            label = (f"run {k + 1} of {len(case['steps'])} "
                     f"(batch_size={step['batch']})")
            try:
                try:
                    store.ingest(h, mk_events({"events": step["events"]}))
                except Exception as e:
                    raise Violation(f"{label}: ingestion raised "
                                    f"{type(e).__name__}: {e}")
            finally:
                store.dispose(h)
            h = store.new_holder(batch_size=step["batch"], db_uri=db.uri)
            try:
                compare(h, {"events": sofar}, label)
            finally:
                store.dispose(h)


def run_stateful(ctx, max_examples, steps):
    """Hypothesis rule based state machine over run histories."""
    from hypothesis import settings, seed, strategies as st, HealthCheck, Phase
    from hypothesis.stateful import (RuleBasedStateMachine, rule,
                                     run_state_machine_as_test)
    failed = {}
    ids = [f"e{k}" for k in range(5)]
    ev = st.tuples(
        st.sampled_from(ids),
        st.one_of(st.none(), st.sampled_from(ids), st.just("ghost")),
        st.sampled_from("ABC"), st.sampled_from(["t0", "t1"]),
        st.sampled_from(["wf0", "wf1"]), st.integers(0, 50),
        st.integers(0, 9), st.sampled_from(["appA", "appB", "appC"]))

    class Runs(RuleBasedStateMachine):
        def __init__(self):
            super().__init__()
            self.db = store.TempDB().__enter__()
            self.steps = []
            self.sofar = []

        @rule(events=st.lists(ev, min_size=1, max_size=6),
              batch=st.integers(1, 7))
        def run(self, events, batch):
            evs = [[e[0], None if e[1] == e[0] else e[1], e[2], e[3], e[4],
                    e[5], e[5] + e[6], e[7]] for e in events]
            self.steps.append({"events": evs, "batch": batch})
            self.sofar += evs
            h = store.new_holder(batch_size=batch, db_uri=self.db.uri)
            label = f"run {len(self.steps)} (batch_size={batch})"
            try:
                try:
                    store.ingest(h, mk_events({"events": evs}))
                except Exception as e:
                    failed["case"] = {"steps": list(self.steps)}
                    raise Violation(f"{label}: ingestion raised "
                                    f"{type(e).__name__}: {e}")
            finally:
                store.dispose(h)
            h = store.new_holder(batch_size=batch, db_uri=self.db.uri)
            try:
                try:
                    compare(h, {"events": self.sofar}, label)
                except Violation:
                    failed["case"] = {"steps": list(self.steps)}
                    raise
            finally:
                store.dispose(h)

        def teardown(self):
            case = {"steps": list(self.steps)}
            if self.steps and not failed:
                ids_ = [e[0] for s in self.steps for e in s["events"]]
                ctx.record(case, len(self.steps) >= 2
                           and len(set(ids_)) < len(ids_),
                           ["stateful", f"runs={min(len(self.steps), 6)}"])
            self.db.__exit__(None, None, None)

    try:
        run_state_machine_as_test(
            seed(ctx.hyp_seed(11))(Runs),
            settings=settings(max_examples=max_examples,
                              stateful_step_count=steps, database=None,
                              deadline=None, report_multiple_bugs=False,
                              phases=[Phase.generate, Phase.shrink],
                              suppress_health_check=list(HealthCheck)))
    except Violation as v:
        ctx.violation(failed.get("case", {"steps": []}), str(v))
        return True
    return False


def replay(case):
    try:
        if "steps" in case:
            check_steps(case)
            return None
        check_case(case)
    except Violation as v:
        return str(v)
    return None


def classify(case):
    ids = [e[0] for e in case["events"]]
    n = len(ids)
    classes = set()
    nontrivial = False
    for b in range(1, n + 2):
        seen = set()
        for k in range(0, n, b):
            batch = ids[k:k + b]
            dup_flags = []
            local = set()
            for j, i in enumerate(batch):
                d_in = i in local
                d_across = i in seen
                dup_flags.append(d_in or d_across)
                if d_in:
                    classes.add("dup_inside_batch")
                if d_across and not d_in:
                    classes.add("dup_across_batches")
                if (d_in or d_across) and j == 0:
                    classes.add("dup_first_of_batch")
                local.add(i)
            if dup_flags and all(dup_flags):
                classes.add("whole_batch_duplicate")
            if any(dup_flags) and not all(dup_flags):
                nontrivial = True
                classes.add("dup_and_fresh_in_one_batch")
            seen |= local
    if case.get("split") is not None:
        a, bb = set(ids[:case["split"]]), set(ids[case["split"]:])
        if a & bb:
            classes.add("dup_across_runs")
    if len(set(ids)) == n:
        classes.add("no_duplicates")
    return nontrivial, sorted(classes)


def case_strategy():
    from hypothesis import strategies as st

    @st.composite
    def build(draw):
        pool = draw(st.integers(1, 6))
        n = draw(st.integers(1, 14))
        # span ids are arbitrary strings: plain, or with punctuation, or
        # differing only by case / surrounding white space
        style = draw(st.sampled_from(["e{}", "e{}", "e{}", "h-1,{}", "a'{}\"",
                                      "x {}", "{}%", "E{}", " e{}", "e{} "]))
        ids = [style.format(k) for k in range(pool)]
        if style in ("E{}", " e{}", "e{} ") and pool >= 2:
            ids[0] = "e1"           # twin of ids[1] up to case / white space
        events = []
        for k in range(n):
            sid = draw(st.sampled_from(ids))
            parent = draw(st.one_of(
                st.none(), st.sampled_from(ids), st.just("ghost"),
                st.just("")))
            if parent == sid:
                parent = None
            start = draw(st.integers(0, 50))
            events.append([sid, parent, draw(st.sampled_from("ABC")),
                           "t" + str(draw(st.integers(0, 2))),
                           "wf" + str(draw(st.integers(0, 1))),
                           start, start + draw(st.integers(0, 9)),
                           "app" + str(k)])
        case = {"events": events}
        if n >= 2 and draw(st.booleans()):
            case["split"] = draw(st.integers(1, n - 1))
            case["split_batch"] = draw(st.integers(1, n + 1))
        return case

    return build()


def shrinker(case):
    ev = case["events"]
    for i in range(len(ev) - 1, -1, -1):
        c = {"events": ev[:i] + ev[i + 1:]}
        if len(c["events"]) == 0:
            continue
        if case.get("split") is not None and len(c["events"]) >= 2:
            c["split"] = max(1, min(case["split"], len(c["events"]) - 1))
            c["split_batch"] = case.get("split_batch", 2)
        yield c
    if case.get("split") is not None:
        yield {"events": ev}


def colliding_id_events():
    """Spans whose (distinct, hex-looking) ids collide pairwise under crc32,
    adler32, xxh32, and the first four bytes of md5 / sha1 - found by a
    deterministic birthday search over 400 000 candidate ids."""
    import hashlib
    import zlib
    fns = {"crc32": lambda b: zlib.crc32(b),
           "adler32": lambda b: zlib.adler32(b),
           "md5_4": lambda b: hashlib.md5(b).digest()[:4],
           "sha1_4": lambda b: hashlib.sha1(b).digest()[:4]}
    try:
        import xxhash
        fns["xxh32"] = lambda b: xxhash.xxh32_intdigest(b)
        fns["xxh64_low32"] = lambda b: xxhash.xxh64_intdigest(b) & 0xFFFFFFFF
    except ImportError:
        pass
    ids = []
    for name, fn in sorted(fns.items()):
        seen, found = {}, 0
        for i in range(400000):
            sid = hashlib.sha256(b"span%d" % i).hexdigest()[:16]
            d = fn(sid.encode())
            if d in seen:
                ids += [seen[d], sid]
                found += 1
                if found == 3:
                    break
            else:
                seen[d] = sid
    ids = list(dict.fromkeys(ids))
    return [[sid, None if k % 4 == 0 else ids[k - 1], "ABC"[k % 3],
             f"t{k // 4}", "wf", k, k + 3, "app"]
            for k, sid in enumerate(ids)]


def plan(tier):
    return {"shards": 16, "budget_s": 300 if tier == "quick" else 3000,
            "coverage": {"bounds": "<=14 occurrences over <=6 ids, all batch "
                         "sizes 1..n+1, one split into two runs"}}


def run_shard(ctx):
    def fn(case):
        nt, classes = classify(case)
        ctx.record(case, nt, classes)
        ctx.count("store_rounds", len(case["events"]) + 1 +
                  (1 if case.get("split") is not None else 0))
        check_case(case)
    if ctx.shard == 2 % ctx.nshards:
        # one large history: more than 999 distinct ids in one batch, the
        # same stream ingested twice (second run: every id is a duplicate),
        # then once more with a few new spans mixed in
        evs = [[f"L{k}", None if k % 7 == 0 else f"L{k - 1}", "ABC"[k % 3],
                f"t{k // 7}", "wf", k, k + 3, "app"] for k in range(1100)]
        extra = [[f"X{k}", f"L{k}", "A", f"t{k // 7}", "wf", k, k + 1, "app"]
                 for k in range(5)]
        big = {"steps": [{"events": evs, "batch": 1000},
                         {"events": evs, "batch": 1000},
                         {"events": evs[:600] + extra + evs[600:],
                          "batch": 2000},
                         # more than 500 new spans in front of known ones
                         {"events": [[f"N{k}", None if k % 5 == 0 else
                                      f"N{k - 1}", "B", f"n{k // 5}", "wf",
                                      k, k + 2, "app"] for k in range(620)]
                          + evs[:300], "batch": 1000}]}
        ctx.record({"steps": "large history, see checks/c10.py"}, True,
                   ["large_batch_over_999_ids", "stateful"])
        try:
            check_steps(big)
        except Violation as v:
            ctx.violation(big, "[large history] " + str(v))
            return
    if ctx.shard == 3 % ctx.nshards:
        # distinct span ids that collide under common 32-bit digests: "one
        # record per distinct span id" must not depend on any digest of it
        evs = colliding_id_events()
        for tag, steps in (
                ("one batch", [{"events": evs, "batch": 1000}]),
                ("batch size 2", [{"events": evs, "batch": 2}]),
                ("two runs", [{"events": evs[::2], "batch": 7},
                              {"events": evs, "batch": 7}])):
            case = {"steps": steps}
            ctx.record({"steps": f"digest-colliding ids, {tag}, see "
                        "checks/c10.py"}, True,
                       ["ids_colliding_under_32bit_digests", "stateful"])
            try:
                check_steps(case)
            except Violation as v:
                ctx.violation(case, f"[digest-colliding ids, {tag}] "
                              + str(v))
                return
    if ctx.run_given(case_strategy(), fn,
                     150 if ctx.tier == "quick" else 2500, shrinker=shrinker):
        return
    run_stateful(ctx, 25 if ctx.tier == "quick" else 400, 8)
