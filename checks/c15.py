"""C15 - re-running against a persisted store is repeatable."""
import itertools
import json
import os
import shutil
import tempfile

from vlib import refseq
from vlib.runner import Violation

ID = "C15"
LEVEL = "exploration"
RULE = (
    "a case is (data set, history); a history is a sequence of 1..4 "
    "separate `python -m tel2puml otel2pv` processes over one SQLite file, "
    "each choosing {ingest, -ni} x {-ug, -} x {-se, -}; the first run "
    "ingests. Data sets: 1..3 workflows x 1..6 template traces (as C14) of "
    "which some repeat a call-tree shape, plus optionally one trace with a "
    "dangling parent (removed by cleaning); half of the data sets use "
    "minute-scale times with time_buffer=1 (traces at the edges are removed "
    "by the first cleaning); sync or async; one large data set (~1100 "
    "spans, batch size 1000) runs two short histories; a batch-boundary "
    "sweep re-ingests each drawn data set under batch sizes 1..9 with two "
    "span records sent twice. Quick: ALL 52 "
    "histories of length <=2 on one drawn data set per seed; thorough: all "
    "436 of length <=3 on two data sets plus drawn histories of length 4 on "
    "drawn data sets. Oracle (model-based): every run exits 0; every run "
    "with -se writes, per workflow, exactly the surviving traces (all of "
    "them without -ug; with -ug one trace per canonical call-tree shape - "
    "shapes compared, not ids) and each written job equals the reference "
    "sequence of its trace. Non-trivial: >=2 runs of which one does not "
    "ingest or uses -ug after an earlier -ug. Distinct by SHA-1 of the JSON "
    "case.")
ASSUMPTIONS = [
    "reference sequencer vlib/refseq.py (C08) and canonical shapes (C09) "
    "give the expected outputs",
    "each run writes to a fresh output directory",
]
EXHAUSTIVE = ("quick", "thorough")
FLAGS = list(itertools.product([True, False], [False, True], [False, True]))
# (ingest, ug, se)


def histories(maxlen):
    first = [f for f in FLAGS if f[0]]
    out = []
    for n in range(1, maxlen + 1):
        for h in itertools.product(first, *([FLAGS] * (n - 1))):
            out.append([list(x) for x in h])
    # histories that begin on the empty store without ingesting
    for f0 in [f for f in FLAGS if not f[0]]:
        for f1 in first:
            out.append([list(f0), list(f1)])
            if maxlen >= 3:
                for f2 in FLAGS:
                    out.append([list(f0), list(f1), list(f2)])
    return out


def shape(spans, sid):
    kids = sorted(shape(spans, c) for c, s in spans.items()
                  if s["parent"] == sid)
    return (spans[sid]["type"], tuple(kids))


def run_history(case):
    import checks.c14 as c14
    tmp = tempfile.mkdtemp(prefix="verif-c15-")
    try:
        db = os.path.join(tmp, "store.db")
        data_case = dict(case["data"], db_uri="sqlite:///" + db)
        data_case.pop("mapping", None)
        cfgp, _ = c14.write_inputs(data_case, tmp)
        wfs = c14.spans_of(data_case)
        # expectation: traces with a dangling parent are removed, and so
        # are traces with no span start or end inside the buffered window
        # (window from everything ingested, as in C11)
        tb = data_case.get("time_buffer", 0) * 60 * 10**9
        allsp = [s for tr in wfs.values() for sp in tr.values()
                 for s in sp.values()]
        lo = min(s["start"] for s in allsp) + tb
        hi = max(s["end"] for s in allsp) - tb
        if lo >= hi:
            raise Violation("harness: drawn data set has an empty window")
        want = {}
        for name, traces in wfs.items():
            for tid, spans in traces.items():
                ids = set(spans)
                if any(s["parent"] is not None and s["parent"] not in ids
                       for s in spans.values()):
                    continue
                if not any(lo <= s["start"] <= hi or lo <= s["end"] <= hi
                           for s in spans.values()):
                    continue
                root = [i for i, s in spans.items() if s["parent"] is None][0]
                pv = refseq.expected_pv(spans, bool(data_case.get("async")))
                want.setdefault(name, {})[tid] = (
                    shape(spans, root), c14.canon_events(pv.values()))
        full_want = want
        ingested = False
        for ri, (ingest, ug, se) in enumerate(case["history"]):
            ingested = ingested or ingest
            want = full_want if ingested else {}
            out = os.path.join(tmp, f"out{ri}")
            argv = ["-o", out, "otel2pv", "-c", cfgp]
            if not ingest:
                argv.append("-ni")
            if ug:
                argv.append("-ug")
            if se:
                argv.append("-se")
            rc, msg = c14.cli(argv, fresh=True)
            label = (f"run {ri + 1} of {len(case['history'])} "
                     f"({' '.join(argv[3:])}; earlier runs: "
                     f"{[' '.join(flagstr(h)) for h in case['history'][:ri]]})")
            if rc != 0:
                raise Violation(f"{label} exited {rc}: {msg[-600:]}")
            if not se:
                continue
            got = {}
            if os.path.isdir(out):
                for name in os.listdir(out):
                    d = os.path.join(out, name)
                    if not os.path.isdir(d):
                        continue
                    for fn in os.listdir(d):
                        with open(os.path.join(d, fn)) as f:
                            evs = json.load(f)
                        if not evs:
                            raise Violation(f"{label}: empty job file")
                        tid = evs[0]["jobId"]
                        if tid in got.get(name, {}):
                            raise Violation(f"{label}: trace {tid} saved "
                                            "twice")
                        got.setdefault(name, {})[tid] = \
                            c14.canon_events(evs)
            if set(got) != set(want):
                raise Violation(f"{label}: saved workflows {sorted(got)}, "
                                f"expected {sorted(want)}")
            for name, traces in want.items():
                g = got[name]
                unknown = sorted(set(g) - set(traces))
                if unknown:
                    raise Violation(f"{label}: workflow {name!r}: saved "
                                    f"traces {unknown} should not be in the "
                                    "store")
                for tid, evs in g.items():
                    if evs != traces[tid][1]:
                        raise Violation(
                            f"{label}: workflow {name!r}: saved job {tid} "
                            f"differs from its reference sequence:\n{evs}\n"
                            f"{traces[tid][1]}")
                if not ug:
                    if set(g) != set(traces):
                        raise Violation(
                            f"{label}: workflow {name!r}: saved traces "
                            f"{sorted(g)}, stored traces {sorted(traces)}")
                else:
                    shapes = [traces[t][0] for t in g]
                    if len(set(shapes)) != len(shapes):
                        raise Violation(
                            f"{label}: workflow {name!r}: two traces of one "
                            f"shape saved with -ug: {sorted(g)}")
                    if set(shapes) != {v[0] for v in traces.values()}:
                        raise Violation(
                            f"{label}: workflow {name!r}: -ug saved "
                            f"{len(set(shapes))} shapes, the store holds "
                            f"{len({v[0] for v in traces.values()})}")
    finally:
        shutil.rmtree(tmp, ignore_errors=True)


def flagstr(h):
    ingest, ug, se = h
    return ([] if ingest else ["-ni"]) + (["-ug"] if ug else []) + \
        (["-se"] if se else [])


def replay(case):
    try:
        run_history(case)
    except Violation as v:
        return str(v)
    return None


def window_effect(d):
    """(#traces kept, #traces removed by the window) of a data set"""
    import checks.c14 as c14
    wfs = c14.spans_of(d)
    tb = d.get("time_buffer", 0) * 60 * 10**9
    allsp = [s for tr in wfs.values() for sp in tr.values()
             for s in sp.values()]
    lo = min(s["start"] for s in allsp) + tb
    hi = max(s["end"] for s in allsp) - tb
    kept = removed = 0
    for traces in wfs.values():
        for spans in traces.values():
            if any(lo <= s["start"] <= hi or lo <= s["end"] <= hi
                   for s in spans.values()):
                kept += 1
            else:
                removed += 1
    return kept, removed


def second_trim_effect(d):
    """Would a window computed again from the *surviving* spans remove
    further traces?  (A run that does not ingest must not do that; data sets
    where it would are the sensitive ones.)"""
    import checks.c14 as c14
    wfs = c14.spans_of(d)
    tb = d.get("time_buffer", 0) * 60 * 10**9
    traces = [sp for tr in wfs.values() for sp in tr.values()]

    def trim(ts):
        allsp = [s for sp in ts for s in sp.values()]
        lo = min(s["start"] for s in allsp) + tb
        hi = max(s["end"] for s in allsp) - tb
        if lo >= hi:
            return None
        return [sp for sp in ts if any(
            lo <= s["start"] <= hi or lo <= s["end"] <= hi
            for s in sp.values())]
    first = trim(traces)
    if not first:
        return False
    second = trim(first)
    return bool(second) and len(second) < len(first)


def straddler_with_unique_shape(d):
    """Is there a surviving trace none of whose spans lies completely inside
    the window, with a shape no other surviving trace of its workflow has?"""
    import checks.c14 as c14
    wfs = c14.spans_of(d)
    tb = d.get("time_buffer", 0) * 60 * 10**9
    if not tb:
        return False
    allsp = [s for tr in wfs.values() for sp in tr.values()
             for s in sp.values()]
    lo = min(s["start"] for s in allsp) + tb
    hi = max(s["end"] for s in allsp) - tb
    if lo >= hi:
        return False
    for name, traces in wfs.items():
        surv = {}
        for tid, spans in traces.items():
            ids = set(spans)
            if any(s["parent"] is not None and s["parent"] not in ids
                   for s in spans.values()):
                continue
            if any(lo <= s["start"] <= hi or lo <= s["end"] <= hi
                   for s in spans.values()):
                root = [i for i, s in spans.items() if s["parent"] is None][0]
                surv[tid] = (shape(spans, root), not any(
                    lo <= s["start"] and s["end"] <= hi
                    for s in spans.values()))
        for tid, (sh, straddles) in surv.items():
            if straddles and sum(1 for v in surv.values() if v[0] == sh) == 1:
                return True
    return False


def big_dataset():
    """one workflow, 140 traces of 8 spans (two shapes), batch size 1000"""
    tmpl = [[None, "A0", 0, 9], [0, "A1", 1, 2], [0, "A2", 4, 2],
            [1, "A3", 1, 1], [2, "A4", 4, 1], [2, "A5", 5, 1],
            [0, "A6", 7, 1], [6, "A7", 7, 1]]
    traces = []
    for i in range(140):
        tr = [list(t) for t in tmpl]
        if i % 3 == 0:
            tr[7][1] = "A7x"
        traces.append(tr)
    return {"workflows": [{"name": "big", "app": "app", "traces": traces}],
            "async": False, "files": 2, "batch": 1000, "sched": 0}


def classify(case):
    h = case["history"]
    ugs = [i for i, x in enumerate(h) if x[1]]
    nt = len(h) >= 2 and (any(not x[0] for x in h[1:]) or len(ugs) >= 2)
    cl = [f"runs={len(h)}"]
    if not h[0][0]:
        cl.append("first_run_on_empty_store_without_ingest")
    if any(not x[0] for x in h[1:]):
        cl.append("later_run_without_ingest")
    if any(x[0] for x in h[1:]):
        cl.append("re_ingest")
    if len(ugs) >= 2:
        cl.append("ug_after_ug")
    if case["data"].get("time_buffer"):
        cl.append("time_buffer>0")
        if window_effect(case["data"])[1]:
            cl.append("window_removes_a_trace")
        if second_trim_effect(case["data"]):
            cl.append("second_trim_would_remove_more")
        if straddler_with_unique_shape(case["data"]):
            cl.append("straddling_trace_with_unique_shape")
    if sum(len(t) for w in case["data"]["workflows"]
           for t in w["traces"]) > 999:
        cl.append("more_than_999_spans_in_one_batch")
    if any(len(w["traces"]) and any(t[1][0] == 99 for t in w["traces"]
                                    if len(t) > 1)
           for w in case["data"]["workflows"]):
        cl.append("data_has_dangling_parent_trace")
    return nt, cl


def data_strategy():
    import checks.c14 as c14
    from hypothesis import strategies as st

    @st.composite
    def build(draw):
        d = draw(c14.strategy())
        d.pop("mapping", None)
        d["batch"] = draw(st.sampled_from([2, 3, 5, 1000]))
        if draw(st.integers(0, 2)) == 0:
            d["dup_records"] = [draw(st.integers(0, 200)) for _ in range(2)]
        for w in d["workflows"]:
            if draw(st.integers(0, 2)) == 0:
                tr = [list(x) for x in w["traces"][0]]
                if len(tr) >= 2:
                    tr[1][0] = 99          # parent that exists nowhere
                    w["traces"].append(tr)
        d.pop("order", None)
        if draw(st.booleans()):
            # minute scale timestamps and a time buffer that bites
            d["tunit"] = 10 * 10**9
            d["time_buffer"] = 2
            # traces of a workflow share the template's timing: shift each
            # trace so that some lie entirely inside the buffers
            for w in d["workflows"]:
                w["traces"] = [[[t[0], t[1], t[2] + off, t[3]] for t in tr]
                               for tr, off in zip(w["traces"], [
                                   10 * draw(st.integers(0, 12))
                                   for _ in w["traces"]])]
            hi = max(t[2] + t[3] for w in d["workflows"]
                     for tr in w["traces"] for t in tr)
            lo = min(t[2] for w in d["workflows"] for tr in w["traces"]
                     for t in tr)
            if (hi - lo) * 10 <= 2 * 120 + 30:
                d["time_buffer"] = 0
        return d
    return build()


def draw_datasets(n, seed):
    from hypothesis import given, settings, seed as hseed, Phase, HealthCheck
    out = []

    @hseed(seed)
    @settings(max_examples=max(n * 100, 300), database=None, deadline=None,
              phases=[Phase.generate],
              suppress_health_check=list(HealthCheck))
    @given(data_strategy())
    def t(d):
        # prefer data sets with >=2 traces of one shape and >=2 workflows
        out.append(d)
    t()
    def score(d):
        ntr = sum(len(w["traces"]) for w in d["workflows"])
        k, r = window_effect(d) if d.get("time_buffer") else (1, 0)
        return (len(d["workflows"]) >= 2) + (ntr >= 4) + \
            bool(d.get("time_buffer")) + 2 * bool(k and r) + \
            3 * bool(d.get("time_buffer") and second_trim_effect(d)) + \
            3 * bool(straddler_with_unique_shape(d)) + \
            any(t[1][0] == 99 for w in d["workflows"] for t in w["traces"]
                if len(t) > 1)
    out.sort(key=score, reverse=True)
    return out[:n]


def plan(tier):
    return {"shards": 16, "budget_s": 300 if tier == "quick" else 3000,
            "coverage": {"bounds": "histories of <=2 (quick) / <=3 runs "
                         "complete, length 4 drawn; 8 flag combinations"}}


def run_shard(ctx):
    from vlib.runner import derive_seed
    nds = 1 if ctx.tier == "quick" else 2
    datasets = draw_datasets(nds, derive_seed("C15", ctx.seed))
    hs = histories(2 if ctx.tier == "quick" else 3)
    ctx.notes["histories_enumerated_per_dataset"] = len(hs)
    idx = 0
    for d in datasets:
        for h in hs:
            idx += 1
            if idx % ctx.nshards != ctx.shard:
                continue
            case = {"data": d, "history": h}
            nt, cl = classify(case)
            ctx.record(case, nt, cl + ["enumerated"])
            ctx.count("process_runs", len(h))
            try:
                run_history(case)
            except Violation as v:
                ctx.violation(case, str(v))
                return
    # batch-boundary sweep: the drawn data sets re-ingested under every
    # batch size 1..9, with two span records sent twice (so that a batch of
    # the second ingest holds repeats of its own next to stored spans, and
    # batch ends fall on every position relative to removed/kept traces)
    for d in datasets:
        nsp = sum(len(t) for w in d["workflows"] for t in w["traces"])
        for b in range(1, 10):
            idx += 1
            if idx % ctx.nshards != ctx.shard:
                continue
            dd = dict(d, batch=b,
                      dup_records=[(3 * b) % nsp, (7 * b + 1) % nsp])
            case = {"data": dd,
                    "history": [[True, False, True], [True, b % 2 == 0, True]]}
            nt, cl = classify(case)
            ctx.record(case, nt, cl + ["batch_sweep",
                                       "span_records_sent_twice"])
            ctx.count("process_runs", 2)
            try:
                run_history(case)
            except Violation as v:
                ctx.violation(case, str(v))
                return
    # one large data set (a batch holds more than 999 distinct span ids)
    big = [[[True, False, False], [True, False, True]],
           [[True, True, False], [False, True, True]]]
    for bi, h in enumerate(big):
        if (ctx.nshards - 1 - bi) % ctx.nshards != ctx.shard:
            continue
        case = {"data": big_dataset(), "history": h}
        nt, cl = classify(case)
        ctx.record({"data": "big_dataset()", "history": h}, nt,
                   cl + ["large"])
        ctx.count("process_runs", len(h))
        try:
            run_history(case)
        except Violation as v:
            ctx.violation(case, str(v))
            return
    if ctx.tier == "thorough":
        from hypothesis import strategies as st
        flags = st.tuples(st.booleans(), st.booleans(), st.booleans())
        strat = st.builds(
            lambda d, h: {"data": d, "history": [[True] + list(h[0][1:])]
                          + [list(x) for x in h[1:]]},
            data_strategy(), st.lists(flags, min_size=4, max_size=4))

        def fn(case):
            nt, cl = classify(case)
            ctx.record(case, nt, cl + ["drawn"])
            ctx.count("process_runs", len(case["history"]))
            run_history(case)
        ctx.run_given(strat, fn, 20, shrinker=shrinker)


def shrinker(case):
    h = case["history"]
    for i in range(len(h) - 1, 0, -1):
        yield dict(case, history=h[:i] + h[i + 1:])
    for i, x in enumerate(h):
        if x[2] and i < len(h) - 1:
            yield dict(case, history=h[:i] + [[x[0], x[1], False]]
                       + h[i + 1:])
    d = case["data"]
    for i in range(len(d["workflows"])):
        if len(d["workflows"]) > 1:
            yield dict(case, data=dict(
                d, workflows=d["workflows"][:i] + d["workflows"][i + 1:]))
