"""C03 - the diagram is independent of order, identifiers, repeats and hash
seed."""
import random

from vlib import learn, present, pumlsem as ps, pvcase
from vlib.runner import Violation

ID = "C03"
LEVEL = "exploration"
RULE = (
    "a case is (definition, loop bound, complete set or subset, schedule "
    "seed s0, presentation seed, second schedule seed s1). The job set is "
    "learned once as enumerated (s0) and once in a drawn presentation (jobs "
    "permuted, events inside each job permuted, fresh event/job ids of "
    "four styles (one of them unique inside a job only: 1..n in every job), timestamps shifted/reversed, one or two jobs repeated as "
    "further instances or as the very same records again; s1; two cases in "
    "five additionally go through the file routes of pv2puml - one JSON "
    "array per job, or one JSON object per event with all files interleaved "
    "and grouped by job id, file order drawn - via the real dispatcher). Oracle inside one process: same outcome kind "
    "(diagram / same exception class), equal ingested models, equal event "
    "names, and language equivalence of the two diagrams (equal after "
    "sorting fork branches, else mutual bounded acceptance with loops <=2, "
    "<=1500 executions each way). Across processes: shards i and i+8 draw "
    "the same cases but run under different PYTHONHASHSEED values; the "
    "parent compares their first outcomes the same way; every corpus "
    "definition, the 24 directly nested (bunched) fork shapes and every "
    "fifth nested-fork shape are additionally learned under all 16 hash "
    "seeds and compared with the outcome under the first. Non-trivial: the "
    "definition has a fork or a loop and the presentation differs from the "
    "enumeration order. One case in ten is a branch-count job set (chain, n "
    "parallel copies of a chain for several n, optional tail - an upstream "
    "feature outside the reference semantics), compared by ingested model "
    "and by the emitted text up to branch order, annotations included. Distinct by SHA-1 of the JSON case.")
ASSUMPTIONS = [
    "container iteration order is driven by the patched uuid4 (schedule "
    "seeds) and by PYTHONHASHSEED (16 values sampled)",
    "a repeated job is a second instance with fresh ids",
    "language equivalence is bounded (loops <=2, 1500 executions)",
]
EXHAUSTIVE = ()
CAP = 1500


def norm(n):
    """Normal form up to branch order."""
    if isinstance(n, ps.Seq):
        return ("seq",) + tuple(norm(i) for i in n.items)
    if isinstance(n, ps.Fork):
        return ("fork", n.kind) + tuple(sorted(
            (norm(b) for b in n.branches), key=repr))
    if isinstance(n, ps.Loop):
        return ("loop", norm(n.body))
    if isinstance(n, ps.Ev):
        return ("ev", n.name)
    return (type(n).__name__,)


def equivalent(t0, t1, seed=0):
    """None if the two diagram texts are language-equivalent up to the bound,
    else a message."""
    try:
        a0 = ps.parse_puml(t0)
    except ps.PumlSyntaxError as e:
        a0 = None
        e0 = str(e)
    try:
        a1 = ps.parse_puml(t1)
    except ps.PumlSyntaxError as e:
        a1 = None
    if a0 is None or a1 is None:
        if a0 is None and a1 is None:
            return None          # both malformed: C05's business
        return "one diagram parses, the other does not"
    if norm(a0) == norm(a1):
        return None
    n0, n1 = set(ps.event_names(a0)), set(ps.event_names(a1))
    if n0 != n1:
        return f"event names differ: {sorted(n0 ^ n1)}"
    for x, y, tag in ((a0, a1, "first"), (a1, a0, "second")):
        jobs = list(ps.enumerate_jobs(x, 2, limit=4 * CAP, raw_limit=40 * CAP))
        if len(jobs) > CAP:
            jobs = random.Random(seed).sample(jobs, CAP)
        for g in jobs:
            try:
                if not ps.accepts(y, g):
                    return (f"a job of the {tag} diagram is rejected by the "
                            f"other: {ps.job_to_json(g)}")
            except ps.AcceptBudget:
                continue
    return None


def outcome_digest(r):
    if r[0] == "ok":
        return ["ok", r[1]]
    if r[0] == "exc":
        return ["exc", r[1]]
    return [r[0], ""]


def compare(r0, r1, what, seed=0, raw=False):
    if raw and r0[0] == "ok" and r1[0] == "ok":
        try:
            same = norm_text(r0[1]) == norm_text(r1[1])
        except ps.PumlSyntaxError:
            same = r0[1] == r1[1]
        if not same:
            raise Violation(f"{what}: different diagrams for one branch-"
                            f"count job set:\n{r0[1]}\n{r1[1]}")
        return
    _compare(r0, r1, what, seed)


def _compare(r0, r1, what, seed=0):
    if r0[0] != r1[0] or (r0[0] == "exc" and r0[1] != r1[1]):
        def d(r):
            return "a diagram" if r[0] == "ok" else \
                (f"{r[1]}: {r[2]}" if r[0] == "exc" else r[0])
        raise Violation(f"{what}: one run gives {d(r0)}, the other {d(r1)}"
                        + ("\n" + r0[1] if r0[0] == "ok" else "")
                        + ("\n" + r1[1] if r1[0] == "ok" else ""))
    if r0[0] == "ok":
        msg = equivalent(r0[1], r1[1], seed)
        if msg:
            raise Violation(f"{what}: {msg}\nfirst:\n{r0[1]}\nsecond:\n{r1[1]}")


def ingest_model(pv):
    learn.install()
    from tel2puml.pv_to_puml.data_ingestion import (
        update_and_create_events_from_clustered_pvevents)
    ev = update_and_create_events_from_clustered_pvevents(
        pv, add_dummy_start=True)
    return learn.model_of_events(ev)


def learn_files(pv_jobs, route, route_seed, sched, nodes_hint, name="job"):
    """The same presentation through the file routes of pv2puml (the real
    dispatcher otel_to_puml(components='pv2puml')): 'job_files' = one JSON
    array per job; 'event_files' = one JSON object per event, files of all
    jobs interleaved in a drawn order, grouped by job id (-group-by-job)."""
    import contextlib
    import io
    import json
    import os
    import tempfile
    learn.install()
    from tel2puml.otel_to_puml import otel_to_puml
    rng = random.Random(route_seed)
    with tempfile.TemporaryDirectory(prefix="verif-c03-") as tmp:
        files = []
        if route == "job_files":
            for i, job in enumerate(pv_jobs):
                fp = os.path.join(tmp, f"j{i}.json")
                with open(fp, "w") as f:
                    json.dump(job, f)
                files.append(fp)
            rng.shuffle(files)
        else:
            seen = set()
            for i, job in enumerate(pv_jobs):
                if job and job[0]["jobId"] in seen:
                    continue        # the very same job again: listed once
                seen.add(job[0]["jobId"] if job else None)
                for k, e in enumerate(job):
                    fp = os.path.join(tmp, f"e{i}_{k}.json")
                    with open(fp, "w") as f:
                        json.dump(e, f)
                    files.append(fp)
            rng.shuffle(files)
        out = os.path.join(tmp, "out")
        os.mkdir(out)
        learn.SCHED.reseed(sched)
        learn._STEPS["n"] = 0
        learn._STEPS["limit"] = 2000 * (nodes_hint + 1)
        try:
            with contextlib.redirect_stdout(io.StringIO()):
                otel_to_puml(
                    pv_to_puml_options={
                        "file_list": files, "job_name": name,
                        "group_by_job_id": route == "event_files"},
                    output_file_directory=out, components="pv2puml")
            with open(os.path.join(out, name.replace(" ", "_") + ".puml")) \
                    as f:
                return ("ok", f.read())
        except learn.NonTermination as e:
            return ("nonterm", str(e))
        except RecursionError as e:
            return ("exc", "RecursionError", str(e)[:200])
        except Exception as e:
            return ("exc", type(e).__name__, str(e)[:300])
        finally:
            learn._STEPS["limit"] = 0


def bcnt_jobs(spec):
    """Branch-count job sets (an upstream feature outside the reference
    semantics): a chain of `pre` events, then n parallel copies of a chain of
    `rep` events for every n in `counts`, then optionally a common tail."""
    jobs = []
    for n in spec["counts"]:
        j = []
        for i in range(spec["pre"]):
            j.append((f"P{i}", frozenset([i - 1]) if i else frozenset()))
        last = len(j) - 1
        ends = []
        for _ in range(n):
            prev = last
            for r in range(spec["rep"]):
                j.append((f"R{r}", frozenset([prev])))
                prev = len(j) - 1
            ends.append(prev)
        if spec.get("tail"):
            j.append(("T", frozenset(ends)))
        jobs.append(tuple(j))
    return jobs


def norm_text(text):
    """normal form up to branch order that keeps the complete event lines
    (branch-count annotations included)"""
    return norm(ps.parse_puml(text.replace(",", "\u201a")))


def run_bcnt(case, ctx=None):
    jobs = bcnt_jobs(case["bcnt"])
    rng = random.Random(case["sched"] ^ 0x5EED)
    pv0 = [learn.job_to_pv(j, "job", rng=rng) for j in jobs]
    pv1, desc = present.present(jobs, case["pres"], "job")
    if ctx:
        ctx.record(case, len(set(case["bcnt"]["counts"])) >= 2,
                   ["branch_counts"] + [f"pres:{k}" for k, v in desc.items()
                                        if v and k not in ("ids", "ts_shift", "route",
                                      "route_seed")])
    learn.SCHED.reseed(case["sched"])
    m0 = ingest_model(pv0)
    learn.SCHED.reseed(case["sched1"])
    m1 = ingest_model(pv1)
    if m0 != m1:
        bad = sorted(t for t in set(m0) | set(m1) if m0.get(t) != m1.get(t))
        raise Violation("ingested models differ between the two "
                        f"presentations ({desc}) for event types {bad}: "
                        f"{[(m0.get(t), m1.get(t)) for t in bad[:2]]}")
    r0 = learn.learn_pv(pv0, "job", case["sched"], nodes_hint=8)
    r1 = learn.learn_pv(pv1, "job", case["sched1"], nodes_hint=8)
    if r0[0] != r1[0] or (r0[0] == "exc" and r0[1] != r1[1]):
        raise Violation(f"branch-count job set, two presentations ({desc}): "
                        f"outcomes {r0[:2]} and {r1[:2]}")
    if r0[0] == "ok":
        try:
            same = norm_text(r0[1]) == norm_text(r1[1])
        except ps.PumlSyntaxError:
            same = r0[1] == r1[1]
        if not same:
            raise Violation(
                f"branch-count job set, two presentations ({desc}) give "
                f"different diagrams:\n{r0[1]}\n{r1[1]}")
    if desc.get("route", "memory") != "memory":
        r2 = learn_files(pv1, desc["route"], desc["route_seed"],
                         case["sched1"], 8)
        compare(r0, r2, f"branch-count job set, in memory vs {desc['route']}"
                f" ({desc})", raw=True)
    return r0


def run_case(case, ctx=None):
    if "bcnt" in case:
        return run_bcnt(case, ctx)
    m = pvcase.materialise(case)
    if m.too_large or not m.jobs:
        if ctx:
            ctx.count("skipped_too_large")
        return None
    fam = pvcase.known_family(case, m, "C03")
    if fam and not case.get("force"):
        if ctx:
            ctx.exclude(fam)
        return None
    rng = random.Random(case["sched"] ^ 0x5EED)
    pv0 = [learn.job_to_pv(j, "job", rng=rng) for j in m.jobs]
    pv1, desc = present.present(m.jobs, case["pres"], "job")
    if ctx:
        structured = any(isinstance(n, (ps.Fork, ps.Loop))
                         for n in ps.walk(m.ast))
        changed = desc.get("jobs_permuted") or desc.get("events_permuted") \
            or desc.get("repeated_jobs")
        cl = pvcase.case_classes(case, m)
        cl += [f"pres:{k}" for k, v in desc.items()
               if v and k not in ("ids", "ts_shift", "route", "route_seed")]
        cl.append("pres:ids=" + desc["ids"])
        cl.append("pres:route=" + desc.get("route", "memory"))
        ctx.record(case, bool(structured and changed), cl,
                   sample={"definition": ps.show(m.ast), "jobs": len(m.jobs),
                           "presentation": desc})
    learn.SCHED.reseed(case["sched"])
    m0 = ingest_model(pv0)
    learn.SCHED.reseed(case["sched1"])
    m1 = ingest_model(pv1)
    if m0 != m1:
        bad = sorted(t for t in set(m0) | set(m1) if m0.get(t) != m1.get(t))
        raise Violation("ingested models differ between the two "
                        f"presentations for event types {bad}: "
                        f"{[(m0.get(t), m1.get(t)) for t in bad[:2]]}")
    types = len({t for j in m.jobs for t, _ in j})
    r0 = learn.learn_pv(pv0, "job", case["sched"], nodes_hint=types)
    r1 = learn.learn_pv(pv1, "job", case["sched1"], nodes_hint=types)
    compare(r0, r1, f"two presentations ({desc})", case["sched"])
    if desc.get("route", "memory") != "memory":
        r2 = learn_files(pv1, desc["route"], desc["route_seed"],
                         case["sched1"], types)
        compare(r0, r2, f"in memory vs the same presentation through "
                f"{desc['route']} ({desc})", case["sched"])
    return r0


def first_outcome(case):
    """Outcome of learning the job set as enumerated (schedule seed s0)."""
    if "bcnt" in case:
        jobs = bcnt_jobs(case["bcnt"])
    else:
        jobs = pvcase.materialise(case).jobs
    rng = random.Random(case["sched"] ^ 0x5EED)
    pv0 = [learn.job_to_pv(j, "job", rng=rng) for j in jobs]
    types = len({t for j in jobs for t, _ in j})
    return learn.learn_pv(pv0, "job", case["sched"], nodes_hint=types)


def first_outcome_under(case, hashseed):
    """The same in a fresh interpreter with the given PYTHONHASHSEED."""
    import json
    import os
    import subprocess
    import sys
    from vlib.runner import VERIF, HarnessError
    code = ("import sys, json; sys.path.insert(0, %r); "
            "from vlib import runner; runner.bootstrap(); "
            "import checks.c03 as c; "
            "print('OUTCOME' + json.dumps(list(c.first_outcome("
            "json.loads(sys.stdin.read())))))" % VERIF)
    env = dict(os.environ, PYTHONHASHSEED=str(hashseed), TQDM_DISABLE="1")
    p = subprocess.run([sys.executable, "-c", code], input=json.dumps(case),
                       env=env, cwd=VERIF, capture_output=True, text=True,
                       timeout=900)
    for line in p.stdout.splitlines():
        if line.startswith("OUTCOME"):
            return tuple(json.loads(line[7:]))
    raise HarnessError("no outcome from sub-interpreter: " + p.stderr[-500:])


def replay(case):
    try:
        if case.get("cross"):
            c = case["cross"]
            base = {k: v for k, v in case.items() if k != "cross"}
            r0 = first_outcome_under(base, c["h0"])
            r1 = first_outcome_under(base, c["h1"])
            compare(r0, r1, f"PYTHONHASHSEED {c['h0']} vs {c['h1']}",
                    raw="bcnt" in base)
            return None
        run_case(dict(case, force=True))
    except Violation as v:
        return str(v)
    return None


def plan(tier):
    return {"shards": 16, "budget_s": 240 if tier == "quick" else 3000,
            "hashseeds": list(range(16)),
            "coverage": {"bounds": "<=16 event types, <=400 jobs, 16 hash "
                         "seeds, 2 schedule seeds per case"}}


def strategy():
    from hypothesis import strategies as st

    @st.composite
    def build(draw):
        if draw(st.integers(0, 9)) == 0:
            c = {"bcnt": {"pre": draw(st.integers(1, 3)),
                          "rep": draw(st.integers(1, 3)),
                          "tail": draw(st.booleans()),
                          "counts": draw(st.lists(st.integers(1, 4),
                                                  min_size=1, max_size=4,
                                                  unique=True))},
                 "sched": draw(st.integers(0, 2**31 - 1))}
        else:
            c = draw(pvcase.cases())
        c["pres"] = draw(st.integers(0, 2**31 - 1))
        c["sched1"] = draw(st.integers(0, 2**31 - 1))
        return c
    return build()


def run_shard(ctx):
    half = max(1, ctx.nshards // 2)
    ctx.seed_shard = ctx.shard % half          # shards i and i+half pair up
    # corpus under two schedule seeds and a presentation
    files = pvcase.corpus_files()
    for i, (name, _) in enumerate(files):
        if i % half != ctx.shard % half:
            continue
        case = {"corpus": name, "k": 2, "pick": None,
                "sched": ctx.seed * 1000 + i, "pres": ctx.seed * 77 + i,
                "sched1": ctx.seed * 1000 + i + 500}
        try:
            r0 = run_case(case, ctx)
        except Violation as v:
            ctx.violation(case, str(v))
            return
        if r0 is not None:
            ctx.bulk[__import__("vlib.runner").runner.case_hash(case)] = {
                "case": case, "r": list(r0)}

    from vlib.runner import case_hash
    # every corpus definition under EVERY hash seed (first outcome only; the
    # parent compares all shards with shard 0)
    for i, (name, _) in enumerate(files):
        case = {"corpus": name, "k": 2, "pick": None, "sched": i}
        m = pvcase.materialise(case)
        if m.too_large or not m.jobs or \
                pvcase.known_family(case, m, "C03"):
            continue
        ctx.count("corpus_runs_for_hash_seed_comparison")
        ctx.bulk["allseeds:" + name] = {"case": case,
                                        "r": list(first_outcome(case))}
    # directly nested ("bunched") forks and the nested-fork family under
    # every hash seed as well
    from vlib import gen
    for fam_name, fam in (("bunched", gen.bunched_fork_shapes()),
                          ("forks", gen.fork_shapes()[::5])):
        for i, (tag, ast) in enumerate(fam):
            case = {"defn": ps.to_json(ast), "k": 1, "pick": None, "sched": i}
            ctx.count("shape_runs_for_hash_seed_comparison")
            ctx.bulk[f"allseeds:{fam_name}:{tag}"] = {
                "case": case, "r": list(first_outcome(case))}

    def fn(case):
        r0 = run_case(case, ctx)
        if r0 is not None:
            ctx.bulk[case_hash(case)] = {"case": case, "r": list(r0)}

    n = 60 if ctx.tier == "quick" else 1500
    ctx.run_given(strategy(), fn, n, shrinker=pvcase.shrinker)


def cross_check(results, hashseeds):
    """Parent side: the same case run in two shards under different
    PYTHONHASHSEED values must give equivalent outcomes."""
    out = []
    n = len(results)
    half = max(1, n // 2)
    pairs = 0
    for i in range(half):
        a, b = results.get(i), results.get(i + half)
        if not a or not b:
            continue
        ba, bb = a.get("bulk", {}), b.get("bulk", {})
        for h in sorted(set(ba) & set(bb)):
            pairs += 1
            r0, r1 = tuple(ba[h]["r"]), tuple(bb[h]["r"])
            try:
                compare(r0, r1, f"PYTHONHASHSEED {hashseeds[i % len(hashseeds)]}"
                        f" vs {hashseeds[(i + half) % len(hashseeds)]}",
                        raw="bcnt" in ba[h]["case"])
            except Violation as v:
                case = dict(ba[h]["case"])
                case["cross"] = {"r0": list(r0), "r1": list(r1),
                                 "h0": hashseeds[i % len(hashseeds)],
                                 "h1": hashseeds[(i + half) % len(hashseeds)]}
                out.append({"case": case, "message": str(v), "shard": i})
                break
    # corpus: every shard against shard 0
    ref = results.get(0, {}).get("bulk", {})
    for j in sorted(results):
        if j == 0 or out:
            continue
        bj = results[j].get("bulk", {})
        for h in sorted(k for k in ref if k.startswith("allseeds:")):
            if h not in bj:
                continue
            pairs += 1
            r0, r1 = tuple(ref[h]["r"]), tuple(bj[h]["r"])
            h0, h1 = hashseeds[0], hashseeds[j % len(hashseeds)]
            try:
                compare(r0, r1, f"PYTHONHASHSEED {h0} vs {h1}")
            except Violation as v:
                case = dict(ref[h]["case"])
                case.update({"pres": 0, "sched1": 0})
                case["cross"] = {"r0": list(r0), "r1": list(r1),
                                 "h0": h0, "h1": h1}
                out.append({"case": case, "message": str(v), "shard": j})
                break
    cross_check.pairs = pairs
    return out
