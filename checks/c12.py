"""C12 - every stored trace is streamed once, whole, under one workflow
name."""
from vlib import store
from vlib.runner import Violation

ID = "C12"
LEVEL = "exploration"
RULE = (
    "stores of 1..10 traces (1..9 spans each, random parent arrays; in a "
    "third of the stores the span ids contain punctuation - commas, quotes, "
    "spaces, %, backslash, newline) under "
    "1..5 workflow names (drawn from a pool with names equal up to letter "
    "case, prefixes of each other, non-ASCII; names and trace ids chosen so "
    "that lexicographic and insertion orders disagree; in a quarter of the "
    "stores with >=2 names some trace id occurs under two names - ids are "
    "unique per workflow only), spans ingested in a drawn interleaved "
    "order; streamed with every batch size (yield_per window) in "
    "{1,2,3,7,1000}, without filter, with filter_job_names, with a "
    "job_name_to_job_ids_map (unique-graph style), or both. The stream is "
    "consumed exactly as sequence_otel_job_id_streams does (each trace "
    "materialised before advancing). Oracle: dict model - each expected name "
    "once, each expected trace once under its name, each span once with its "
    "parent and exactly its children (as a set, no repeats), all columns "
    "equal. Second observation point: the same store (a quarter of the cases "
    "with a span whose parent is in no trace) is consumed through "
    "sequence_otel_job_id_streams; exactly the connected traces must come "
    "out, each with all its spans. Non-trivial: >=2 names and some trace larger than the batch "
    "size. Distinct by serialised case.")
ASSUMPTIONS = [
    "store is clean: all spans of a trace (workflow name, trace id) carry "
    "that name, parents exist, span ids unique",
    "consumer materialises each trace before advancing the outer iterators "
    "(lazy groupby cannot support anything else)",
]
EXHAUSTIVE = ()
BATCHES = (1, 2, 3, 7, 1000)


def spans_of(case):
    out = []
    ghosts = {tuple(g) for g in case.get("ghost", [])}
    sep = case.get("idsep", "-")     # span ids are arbitrary strings
    for ti, (name, jid, parents, types) in enumerate(case["traces"]):
        for k, p in enumerate(parents):
            out.append(dict(
                event_id=f"{jid}{sep}{ti}s{k}",
                parent=("ghost-" + jid if (ti, k) in ghosts and k > 0 else
                        None if p is None else f"{jid}{sep}{ti}s{p}"),
                typ=types[k], job_id=jid, name=name,
                start=1000 * ti + k, end=1000 * ti + k + 3))
    order = case.get("order")
    if order and len(order) == len(out):
        out = [out[i] for i in order]
    return out


def expected(case, spans):
    fn = case.get("filter_names")
    idmap = case.get("id_map")
    want = {}
    for s in spans:
        if fn and s["name"] not in fn:
            continue
        if idmap and not (s["name"] in idmap and s["job_id"] in idmap[s["name"]]):
            continue
        want.setdefault(s["name"], {}).setdefault(s["job_id"], {})[s["event_id"]] = s
    return want


def check_case(case):
    spans = spans_of(case)
    want = expected(case, spans)
    children = {}
    for s in spans:
        if s["parent"] is not None:
            children.setdefault(s["parent"], set()).add(s["event_id"])
    events = [store.otel_event(s["event_id"], s["parent"], s["typ"], s["job_id"],
                               s["name"], s["start"], s["end"]) for s in spans]
    fn = set(case["filter_names"]) if case.get("filter_names") else None
    idmap = ({k: set(v) for k, v in case["id_map"].items()}
             if case.get("id_map") else None)
    for b in BATCHES:
        label = f"batch_size={b}"
        h = store.new_holder(batch_size=b)
        try:
            store.ingest(h, events)
            got = {}
            try:
                for name, traces in h.stream_data(idmap, fn):
                    if name in got:
                        raise Violation(f"{label}: workflow {name} yielded twice")
                    got[name] = {}
                    for trace in traces:
                        evs = list(trace)
                        if not evs:
                            raise Violation(f"{label}: empty trace under {name}")
                        jids = {e.job_id for e in evs}
                        if len(jids) != 1:
                            raise Violation(
                                f"{label}: one trace stream mixes trace ids {sorted(jids)}")
                        jid = evs[0].job_id
                        if jid in got[name]:
                            raise Violation(
                                f"{label}: trace {jid} yielded twice under {name}")
                        for n2, d in got.items():
                            if n2 != name and jid in d and \
                                    jid not in want.get(name, {}):
                                raise Violation(
                                    f"{label}: trace {jid} under {n2} and {name}")
                        got[name][jid] = evs
            except Violation:
                raise
            except Exception as e:
                raise Violation(f"{label}: streaming raised {type(e).__name__}: {e}")
            if set(got) != set(want):
                raise Violation(f"{label}: workflows streamed {sorted(got)}, "
                                f"expected {sorted(want)}")
            for name in want:
                if set(got[name]) != set(want[name]):
                    raise Violation(
                        f"{label}: workflow {name}: traces {sorted(got[name])}, "
                        f"expected {sorted(want[name])}")
                for jid, wspans in want[name].items():
                    evs = got[name][jid]
                    ids = [e.event_id for e in evs]
                    if sorted(ids) != sorted(wspans):
                        raise Violation(
                            f"{label}: trace {jid}: spans {sorted(ids)}, "
                            f"expected {sorted(wspans)}")
                    for e in evs:
                        w = wspans[e.event_id]
                        if (e.job_name, e.event_type, e.parent_event_id,
                                e.start_timestamp, e.end_timestamp) != (
                                name, w["typ"], w["parent"], w["start"], w["end"]):
                            raise Violation(
                                f"{label}: span {e.event_id} fields differ: {e}")
                        kids = list(e.child_event_ids or [])
                        wk = children.get(e.event_id, set())
                        if len(kids) != len(set(kids)) or set(kids) != wk:
                            raise Violation(
                                f"{label}: span {e.event_id} children {sorted(kids)}"
                                f", expected {sorted(wk)}")
        finally:
            store.dispose(h)


def check_sequencing(case):
    """Second observation point (the per-trace materialisation in front of
    the sequencer): every connected trace of the store must come out of
    sequence_otel_job_id_streams as one PV job with all its spans; a trace
    whose tree is broken (a parent that is not in the trace) is skipped and
    must not affect the others."""
    from tel2puml.otel_to_pv.sequence_otel import sequence_otel_job_id_streams
    spans = spans_of(case)
    if case.get("filter_names") or case.get("id_map"):
        return
    by_trace = {}
    for s in spans:
        by_trace.setdefault((s["name"], s["job_id"]), []).append(s)
    want = {}
    for (name, jid), ss in by_trace.items():
        ids = {x["event_id"] for x in ss}
        if all(x["parent"] is None or x["parent"] in ids for x in ss) and \
                sum(1 for x in ss if x["parent"] is None) == 1:
            want[(name, jid)] = ids
    events = [store.otel_event(s["event_id"], s["parent"], s["typ"],
                               s["job_id"], s["name"], s["start"], s["end"])
              for s in spans]
    h = store.new_holder(batch_size=2)
    try:
        store.ingest(h, events)
        got = {}
        try:
            for name, traces in h.stream_data():
                for job in sequence_otel_job_id_streams(traces):
                    evs = list(job)
                    if not evs:
                        continue
                    jid = (name, evs[0]["jobId"])
                    if jid in got:
                        raise Violation(f"sequencing: trace {jid} twice")
                    got[jid] = {e["eventId"] for e in evs}
        except Violation:
            raise
        except Exception as e:
            raise Violation(f"sequencing the stream raised "
                            f"{type(e).__name__}: {e}")
        if got != want:
            raise Violation(
                f"sequencing the stream: PV jobs for traces {sorted(got)}, "
                f"connected traces in the store are {sorted(want)} (spans "
                f"differ for {[j for j in got if j in want and got[j] != want[j]]})")
    finally:
        store.dispose(h)


def replay(case):
    try:
        check_case(case)
        check_sequencing(case)
    except Violation as v:
        return str(v)
    return None


def classify(case):
    names = {t[0] for t in case["traces"]}
    big = max(len(t[2]) for t in case["traces"])
    classes = [f"names={len(names)}"]
    if len({n.lower() for n in names}) < len(names):
        classes.append("names_equal_ignoring_case")
    ids = [t[1] for t in case["traces"]]
    if len(set(ids)) < len(ids):
        classes.append("trace_id_shared_by_two_workflows")
    if case.get("ghost"):
        classes.append("trace_with_missing_parent")
    if case.get("idsep"):
        classes.append("span_ids_with_punctuation")
    if case.get("filter_names"):
        classes.append("filter_names")
    if case.get("id_map"):
        classes.append("id_map")
    if big > 3:
        classes.append("trace_larger_than_batch3")
    if big > 7:
        classes.append("trace_larger_than_batch7")
    return len(names) >= 2 and big >= 2, classes


NAMES = ["wf", "wf10", "wf2", "Z", "a b", "WF", "Wf", "z", "wf_1", "wf-1",
         "\u00e9", "E", "wf ", "a"]


def case_strategy():
    from hypothesis import strategies as st

    @st.composite
    def build(draw):
        nn = draw(st.integers(1, 5))
        nt = draw(st.integers(1, 10))
        # names that differ only in case, are prefixes of each other, or
        # collate differently under other collations
        names = draw(st.lists(st.sampled_from(NAMES), min_size=nn,
                              max_size=nn, unique=True))
        traces = []
        for ti in range(nt):
            name = names[draw(st.integers(0, nn - 1))]
            n = draw(st.integers(1, 9))
            parents = [None] + [draw(st.integers(0, k - 1)) for k in range(1, n)]
            types = [draw(st.sampled_from("ABC")) for _ in range(n)]
            jid = draw(st.sampled_from(["job", "j", "T"])) + str((ti * 7) % 11)
            jid = f"{jid}_{ti}"
            traces.append([name, jid, parents, types])
        if nn >= 2 and draw(st.integers(0, 3)) == 0:
            # trace ids are unique per workflow only (the filter pairs names
            # with ids): give traces of different names the same id
            for _ in range(draw(st.integers(1, 3))):
                a = draw(st.integers(0, nt - 1))
                b = draw(st.integers(0, nt - 1))
                if traces[a][0] != traces[b][0] and not any(
                        t[0] == traces[b][0] and t[1] == traces[a][1]
                        for t in traces):
                    traces[b][1] = traces[a][1]
        total = sum(len(t[2]) for t in traces)
        ghost = []
        if draw(st.integers(0, 3)) == 0:
            for ti, t in enumerate(traces):
                if len(t[2]) >= 2 and draw(st.integers(0, 2)) == 0:
                    ghost.append([ti, draw(st.integers(1, len(t[2]) - 1))])
        case = {"traces": traces,
                "order": list(draw(st.permutations(list(range(total)))))}
        if ghost:
            case["ghost"] = ghost
        sep = draw(st.sampled_from(["-", "-", "-", ",", ", ", " ", "%", "'",
                                    '"', "\\", ";", "|", "\n"]))
        if sep != "-":
            case["idsep"] = sep      # composite ids: "host-1,0015" etc.
        mode = draw(st.integers(0, 3))
        present = sorted({t[0] for t in traces})
        if mode in (1, 3):
            case["filter_names"] = draw(st.lists(
                st.sampled_from(present + ["absent"]), min_size=1, max_size=3,
                unique=True))
        if mode in (2, 3):
            idmap = {}
            for nm in draw(st.lists(st.sampled_from(present), min_size=1,
                                    max_size=len(present), unique=True)):
                ids = [t[1] for t in traces]
                idmap[nm] = draw(st.lists(st.sampled_from(ids), min_size=1,
                                          max_size=4, unique=True))
            case["id_map"] = idmap
        return case

    return build()


def shrinker(case):
    tr = case["traces"]
    for i in range(len(tr) - 1, -1, -1):
        if len(tr) > 1:
            c = dict(case, traces=tr[:i] + tr[i + 1:])
            c.pop("order", None)
            yield c
    for key in ("filter_names", "id_map", "order"):
        if case.get(key):
            c = dict(case)
            c.pop(key)
            yield c


def plan(tier):
    return {"shards": 16, "budget_s": 300 if tier == "quick" else 3600,
            "coverage": {"bounds": "<=10 traces x <=9 spans, <=5 names, "
                         "batch sizes 1,2,3,7,1000"}}


def run_shard(ctx):
    def fn(case):
        nt, classes = classify(case)
        ctx.record(case, nt, classes)
        ctx.count("store_rounds", len(BATCHES))
        check_case(case)
        check_sequencing(case)
    ctx.run_given(case_strategy(), fn, 100 if ctx.tier == "quick" else 2500,
                  shrinker=shrinker)
