"""C09 - unique-graph selection keeps one trace per distinct call-tree
shape."""
import itertools

from vlib import store
from vlib.runner import Violation

ID = "C09"
LEVEL = "exploration"
RULE = (
    "(a) small enumeration: every pair of ordered labelled rooted trees with "
    "<=4 nodes over 2 span types (102 presentations, 5253 unordered pairs; "
    "quick: a seed-selected quarter) stored as two traces of one workflow; "
    "(b) Hypothesis: 1..12 traces, trees of <=8 nodes over 3 types with a "
    "bias to repeating an earlier shape with shuffled sibling order, spread "
    "over 1..3 workflow names, drawn interleaved ingestion order. Each case "
    "is ingested for batch sizes {1,2,3,1000} and for the drawn and the "
    "reversed ingestion order; find_unique_graphs must return, per workflow, "
    "ids of that workflow whose canonical forms (type, sorted child forms) "
    "are pairwise different and cover exactly the forms stored under that "
    "name; a slice also goes through otel_to_pv(find_unique_graphs=True) on "
    "a file database; a third of the drawn cases additionally place the "
    "spans on a minute grid, run the three cleaning steps with time_buffer "
    "in {1,2,3} and demand one representative per shape among the traces "
    "still stored after cleaning; a quarter arrive in two deliveries for the "
    "same trace ids (sub trees held back, selection after each delivery "
    "against one sqlite file); one fixed large store (1005 traces, root "
    "page of 1000). span ids are dot-separated paths or, in a third of the drawn cases, joined by punctuation (comma, quotes, %, space). Non-trivial: >=2 traces of equal form under one name "
    "and >=2 forms overall. Distinct by the serialised case.")
ASSUMPTIONS = [
    "canonical form = (type, sorted tuple of child forms)",
    "all spans of a trace carry the trace's workflow name (name repair is "
    "C11's subject); time_buffer = 0 except in the buffered-window mode, "
    "where an empty window (ValueError) is counted and skipped",
]
EXHAUSTIVE = ()


def canon(tree):
    return (tree[0], tuple(sorted(canon(c) for c in tree[1])))


def flatten(tree, prefix, parent, out, name, job, sep="."):
    sid = prefix
    out.append((sid, parent, tree[0], job, name))
    for k, c in enumerate(tree[1]):
        flatten(c, f"{prefix}{sep}{k}", sid, out, name, job, sep)


def spans_of(case):
    """list of span tuples in 'natural' order, with timestamps."""
    spans = []
    empties = set(case.get("empty_root_parent") or ())
    for ti, (name, tree) in enumerate(case["traces"]):
        out = []
        # OTLP/JSON exporters write "" for the parent of a root span
        flatten(tree, f"t{ti}", "" if ti in empties else None, out, name,
                f"job{ti}", case.get("idsep", "."))
        for k, (sid, parent, typ, job, nm) in enumerate(out):
            start = 1000 * (ti + 1) + k
            spans.append((sid, parent, typ, job, nm, start, start + 5))
    return spans


def ordered(case, spans, reverse):
    order = case.get("order")
    if order and len(order) == len(spans):
        seq = [spans[i] for i in order]
    else:
        seq = list(spans)
    if reverse:
        seq.reverse()
    return seq


def expected(case):
    want = {}
    for ti, (name, tree) in enumerate(case["traces"]):
        want.setdefault(name, {}).setdefault(canon(tree), set()).add(f"job{ti}")
    return want


def verify(res, case, label):
    want = expected(case)
    forms = {f"job{ti}": canon(tree) for ti, (n, tree) in enumerate(case["traces"])}
    names = {f"job{ti}": n for ti, (n, tree) in enumerate(case["traces"])}
    if set(res) != set(want):
        raise Violation(f"{label}: workflows {sorted(res)} but stored "
                        f"workflows are {sorted(want)}")
    for name, ids in res.items():
        ids = list(ids)
        for j in ids:
            if j not in names:
                raise Violation(f"{label}: unknown trace id {j} selected")
            if names[j] != name:
                raise Violation(f"{label}: trace {j} of workflow {names[j]} "
                                f"selected under {name}")
        fs = [forms[j] for j in ids]
        if len(set(fs)) != len(fs):
            raise Violation(
                f"{label}: workflow {name}: two traces of the same shape "
                f"selected: {sorted(ids)}")
        if set(fs) != set(want[name]):
            raise Violation(
                f"{label}: workflow {name}: {len(set(fs))} shapes represented "
                f"by {sorted(ids)} but {len(want[name])} distinct shapes are "
                f"stored")


def check_case(case, batches=(1, 2, 3, 1000), full=True):
    spans = spans_of(case)
    for reverse in (False, True):
        seq = ordered(case, spans, reverse)
        events = [store.otel_event(s[0], s[1], s[2], s[3], s[4], s[5], s[6])
                  for s in seq]
        for b in batches:
            label = f"batch_size={b} order={'reversed' if reverse else 'drawn'}"
            h = store.new_holder(batch_size=b)
            try:
                store.ingest(h, events)
                try:
                    res = h.find_unique_graphs()
                except Exception as e:
                    raise Violation(f"{label}: find_unique_graphs raised "
                                    f"{type(e).__name__}: {e}")
                verify(res, case, label)
            finally:
                store.dispose(h)
    if case.get("via_otel_to_pv"):
        via_otel_to_pv(case, spans)
    if case.get("late") is not None:
        two_deliveries(case, spans)
    if case.get("window"):
        return windowed(case)
    return None


def two_deliveries(case, spans):
    """A first delivery without some sub trees (every held back span is held
    back together with all its descendants, so the stored trees are pruned,
    not broken), selection; then the rest arrives for the *same* trace ids,
    selection again against the same sqlite file.  Each selection must be
    right for what is stored at that moment inside the time window of the
    delivery (the window is taken from the spans the holder instance
    ingested itself; older traces outside it are not candidates - observed
    behaviour of get_time_window, not demanded otherwise)."""
    held = set()
    by_id = {s[0]: s for s in spans}
    kids = {}
    for s in spans:
        kids.setdefault(s[1], []).append(s[0])
    rng_pick = case["late"]
    cands = [s[0] for s in spans if s[1]]
    if not cands:
        return
    for i in rng_pick:
        stack = [cands[i % len(cands)]]
        while stack:
            x = stack.pop()
            if x not in held:
                held.add(x)
                stack.extend(kids.get(x, []))
    first = [s for s in spans if s[0] not in held]
    late = [s for s in spans if s[0] in held]

    def forms_of(sp):
        ch = {}
        for s in sp:
            ch.setdefault(s[1], []).append(s)
        def form(s):
            return (s[2], tuple(sorted(form(c) for c in ch.get(s[0], []))))
        out = {}
        for s in sp:
            if not s[1]:
                out.setdefault(s[4], {})[s[3]] = form(s)
        return out

    with store.TempDB() as db:
        stored = []
        for part, label in ((first, "first delivery"),
                            (late, "after the late spans")):
            stored += part
            h = store.new_holder(batch_size=case.get("pv_batch", 2),
                                 db_uri=db.uri)
            try:
                store.ingest(h, [store.otel_event(*s) for s in part])
                try:
                    res = h.find_unique_graphs()
                except Exception as e:
                    raise Violation(f"two deliveries, {label}: "
                                    f"find_unique_graphs raised "
                                    f"{type(e).__name__}: {e}")
            finally:
                store.dispose(h)
            # candidate roots are taken from the time window of what THIS
            # holder instance ingested (base.py get_time_window, buffer 0):
            # stored traces with a span start or end inside it
            lo = min(x[5] for x in part)
            hi = max(x[6] for x in part)
            inside = {x[3] for x in stored
                      if lo <= x[5] <= hi or lo <= x[6] <= hi}
            want = {n: {j: f for j, f in d.items() if j in inside}
                    for n, d in forms_of(stored).items()}
            want = {n: d for n, d in want.items() if d}
            if set(res) != set(want):
                raise Violation(f"two deliveries, {label}: workflows "
                                f"{sorted(res)} vs stored {sorted(want)}")
            for name, ids in res.items():
                fs = [want[name].get(j) for j in ids]
                if None in fs:
                    raise Violation(f"two deliveries, {label}: unknown trace "
                                    f"selected under {name}: {sorted(ids)}")
                if len(set(fs)) != len(fs):
                    raise Violation(
                        f"two deliveries, {label}: workflow {name}: two "
                        f"traces of one shape selected: {sorted(ids)}")
                if set(fs) != set(want[name].values()):
                    raise Violation(
                        f"two deliveries, {label}: workflow {name}: "
                        f"{len(set(fs))} shapes represented by {sorted(ids)} "
                        f"but {len(set(want[name].values()))} distinct shapes "
                        f"are stored")


MIN = 60 * 10**9


def windowed(case):
    """time_buffer > 0: spans placed on a minute grid, the three cleaning
    steps run as otel_to_pv runs them, then unique-graph selection.  The
    expectation is stated over what is *stored* after cleaning (read back
    from the table), so no window model is needed: whatever cleaning kept
    must be represented."""
    w = case["window"]
    spans = []
    for ti, (name, tree) in enumerate(case["traces"]):
        out = []
        flatten(tree, f"t{ti}", None, out, name, f"job{ti}",
                case.get("idsep", "."))
        tms = w["times"][ti]
        for k, (sid, parent, typ, job, nm) in enumerate(out):
            a, d = tms[k % len(tms)]
            spans.append((sid, parent, typ, job, nm, a * MIN + k,
                          (a + d) * MIN + k))
    forms = {f"job{ti}": canon(tree)
             for ti, (n, tree) in enumerate(case["traces"])}
    names = {f"job{ti}": n for ti, (n, tree) in enumerate(case["traces"])}
    events = [store.otel_event(*s) for s in ordered(case, spans, False)]
    for b in (1, 2, 1000):
        label = f"time_buffer={w['buffer']} batch_size={b}"
        h = store.new_holder(batch_size=b, time_buffer=w["buffer"])
        try:
            store.ingest(h, events)
            try:
                h.remove_inconsistent_jobs()
                h.remove_jobs_outside_of_time_window()
                h.update_job_names_by_root_span()
            except ValueError:
                return "window_empty"
            stored = {r["job_id"] for r in store.read_nodes(h)}
            try:
                res = h.find_unique_graphs()
            except Exception as e:
                raise Violation(f"{label}: find_unique_graphs raised "
                                f"{type(e).__name__}: {e}")
            want = {}
            for j in stored:
                want.setdefault(names[j], set()).add(forms[j])
            if set(res) != set(want):
                raise Violation(
                    f"{label}: workflows with selected traces "
                    f"{sorted(res)}, workflows stored after cleaning "
                    f"{sorted(want)}")
            for name, ids in res.items():
                ids = list(ids)
                bad = [j for j in ids if j not in stored or names[j] != name]
                if bad:
                    raise Violation(f"{label}: {bad} selected under {name} "
                                    "but not stored under it")
                fs = [forms[j] for j in ids]
                if len(set(fs)) != len(fs):
                    raise Violation(f"{label}: workflow {name}: two traces "
                                    f"of one shape selected: {sorted(ids)}")
                if set(fs) != want[name]:
                    raise Violation(
                        f"{label}: workflow {name}: {len(set(fs))} shapes "
                        f"represented by {sorted(ids)} but {len(want[name])} "
                        f"distinct shapes are stored after cleaning "
                        f"(stored traces: {sorted(stored)})")
            removed = len(stored) < len(case["traces"])
        finally:
            store.dispose(h)
    return "ok_some_trace_removed" if removed else "ok_all_kept"


def via_otel_to_pv(case, spans):
    from tel2puml.otel_to_pv.config import load_config_from_dict
    from tel2puml.otel_to_pv.otel_to_pv import otel_to_pv
    seq = ordered(case, spans, False)
    events = [store.otel_event(s[0], s[1], s[2], s[3], s[4], s[5], s[6])
              for s in seq]
    with store.TempDB() as db:
        b = case.get("pv_batch", 2)
        h = store.new_holder(batch_size=b, db_uri=db.uri)
        store.ingest(h, events)
        store.dispose(h)
        store.reset_metadata()
        cfg = load_config_from_dict({
            "ingest_data": {"data_source": "json", "data_holder": "sql"},
            "data_holders": {"sql": {"db_uri": db.uri, "batch_size": b,
                                     "time_buffer": 0}},
            "data_sources": {"json": {"dirpath": db.dir, "filepath": None,
                                      "json_per_line": False,
                                      "field_mapping": None,
                                      "jq_query": "."}},
        })
        try:
            gen = otel_to_pv(cfg, ingest_data=False, find_unique_graphs=True)
            res = {}
            for name, jobs in gen:
                for job in jobs:
                    evs = list(job)
                    res.setdefault(name, set()).update(e["jobId"] for e in evs)
        except Violation:
            raise
        except Exception as e:
            raise Violation(f"otel_to_pv(find_unique_graphs=True) raised "
                            f"{type(e).__name__}: {e}")
        verify(res, case, f"otel_to_pv unique graphs batch_size={b}")


def replay(case):
    try:
        check_case(case)
    except Violation as v:
        return str(v)
    return None


def classify(case):
    want = expected(case)
    nforms = len({f for d in want.values() for f in d})
    rep = any(len(ids) >= 2 for d in want.values() for ids in d.values())
    classes = [f"names={len(want)}"]
    if rep:
        classes.append("repeated_shape")
    # same multiset of children in different order
    pres = {}
    for name, tree in case["traces"]:
        pres.setdefault((name, canon(tree)), set()).add(str(tree))
    if any(len(v) >= 2 for v in pres.values()):
        classes.append("same_shape_different_sibling_order")
    across = {}
    for name, d in want.items():
        for f in d:
            across.setdefault(f, set()).add(name)
    if any(len(v) >= 2 for v in across.values()):
        classes.append("same_shape_in_two_workflows")
    if case.get("via_otel_to_pv"):
        classes.append("via_otel_to_pv")
    if case.get("window"):
        classes.append("buffered_window")
    if case.get("late") is not None:
        classes.append("two_deliveries_same_trace_ids")
    if case.get("empty_root_parent"):
        classes.append("root_with_empty_string_parent")
    if case.get("idsep"):
        classes.append("span_ids_with_punctuation")
    return rep and nforms >= 2, classes


# ---- small enumeration ---------------------------------------------------
def ordered_trees(n, types="AB"):
    """all ordered labelled trees with n nodes."""
    if n == 1:
        for t in types:
            yield [t, []]
        return
    for t in types:
        for forest in forests(n - 1, types):
            yield [t, forest]


def forests(n, types):
    if n == 0:
        yield []
        return
    for k in range(1, n + 1):
        for first in ordered_trees(k, types):
            for rest in forests(n - k, types):
                yield [first] + rest


def small_pairs():
    pres = [t for n in range(1, 5) for t in ordered_trees(n)]
    for i, a in enumerate(pres):
        for b in pres[i:]:
            yield {"traces": [["wf", a], ["wf", b]]}


# ---- strategy ------------------------------------------------------------
def case_strategy():
    from hypothesis import strategies as st

    @st.composite
    def tree(draw, budget):
        typ = draw(st.sampled_from("ABC"))
        kids = []
        budget -= 1
        while budget > 0 and draw(st.integers(0, 2)) > 0:
            sz = draw(st.integers(1, budget))
            kids.append(draw(tree(sz)))
            budget -= sz
        return [typ, kids]

    def size(t):
        return 1 + sum(size(c) for c in t[1])

    @st.composite
    def shuffled(draw, t):
        kids = [draw(shuffled(c)) for c in t[1]]
        return [t[0], list(draw(st.permutations(kids)))]

    @st.composite
    def build(draw):
        nnames = draw(st.integers(1, 3))
        nt = draw(st.integers(1, 12))
        traces = []
        for _ in range(nt):
            name = "wf" + str(draw(st.integers(0, nnames - 1)))
            if traces and draw(st.integers(0, 2)) > 0:
                base = draw(st.sampled_from(traces))[1]
                t = draw(shuffled(base))
                if draw(st.integers(0, 4)) == 0:
                    # near miss: change one leaf type / add a leaf
                    t = [t[0], t[1] + [[draw(st.sampled_from("ABC")), []]]]
            else:
                t = draw(tree(draw(st.integers(1, 8))))
            traces.append([name, t])
        case = {"traces": traces}
        total = sum(size(t) for _, t in traces)
        case["order"] = list(draw(st.permutations(list(range(total)))))
        if draw(st.integers(0, 4)) == 0:
            case["via_otel_to_pv"] = True
            case["pv_batch"] = draw(st.sampled_from([1, 2, 3, 1000]))
        sep = draw(st.sampled_from([".", ".", ".", ",", " ", "'", "%", '"']))
        if sep != ".":
            case["idsep"] = sep     # span ids are arbitrary strings
        if draw(st.integers(0, 3)) == 0:
            case["empty_root_parent"] = sorted(set(draw(st.lists(
                st.integers(0, len(traces) - 1), min_size=1, max_size=4))))
        if draw(st.integers(0, 3)) == 0:
            case["late"] = draw(st.lists(st.integers(0, 40), min_size=1,
                                         max_size=3))
            case.setdefault("pv_batch", draw(st.sampled_from([1, 2, 1000])))
        if draw(st.integers(0, 2)) == 0:
            # traces inside / outside / straddling a buffered window
            times = []
            for _ in traces:
                base = draw(st.sampled_from([0, 0, 1, 2, 4, 6, 8, 9, 10]))
                times.append([[base + draw(st.integers(0, 2)),
                               draw(st.integers(0, 3))]
                              for _ in range(draw(st.integers(1, 3)))])
            case["window"] = {"buffer": draw(st.sampled_from([1, 2, 3])),
                              "times": times}
        return case

    return build()


def shrinker(case):
    tr = case["traces"]
    for i in range(len(tr) - 1, -1, -1):
        if len(tr) > 1:
            c = dict(case)
            c["traces"] = tr[:i] + tr[i + 1:]
            c.pop("order", None)
            if case.get("window"):
                w = case["window"]
                c["window"] = {"buffer": w["buffer"],
                               "times": w["times"][:i] + w["times"][i + 1:]}
            yield c
    if case.get("order"):
        c = dict(case)
        c.pop("order")
        yield c
    if case.get("via_otel_to_pv"):
        c = dict(case)
        c.pop("via_otel_to_pv")
        yield c


def plan(tier):
    return {"shards": 16, "budget_s": 300 if tier == "quick" else 3600,
            "coverage": {"bounds": "pairs of trees <=4 nodes/2 types; drawn: "
                         "<=12 traces, <=8(+1) nodes, 3 types, <=3 names; "
                         "batch sizes 1,2,3,1000; two ingestion orders"}}


def run_shard(ctx):
    def fn(case):
        nt, classes = classify(case)
        ctx.record(case, nt, classes)
        ctx.count("store_rounds", 8)
        r = check_case(case)
        if r:
            ctx.count("window_" + r)

    idx = 0
    for case in small_pairs():
        idx += 1
        if idx % ctx.nshards != ctx.shard:
            continue
        if ctx.tier == "quick" and (idx // ctx.nshards) % 8 != ctx.seed % 8:
            continue
        ctx.count("small_pairs_enumerated")
        nt, classes = classify(case)
        ctx.record(case, False, classes + ["small_pair"])
        try:
            check_case(case, batches=(1, 1000) if ctx.tier == "quick"
                       else (1, 2, 3, 1000))
        except Violation as v:
            ctx.violation(case, str(v))
            return
    if ctx.shard == 3 % ctx.nshards:
        # one large store: more than 999 traces in one root page
        big = {"traces": [["wf", ["A", [["B" if i % 2 else "C", []]]]]
                          for i in range(1005)]}
        ctx.record({"traces": "1005 two-span traces, two shapes"}, True,
                   ["large_root_page_over_999"])
        try:
            check_case(big, batches=(1000,))
        except Violation as v:
            ctx.violation(big, "[large store] " + str(v))
            return
    ctx.run_given(case_strategy(), fn, 40 if ctx.tier == "quick" else 1500,
                  shrinker=shrinker)
