"""C14 - otel2puml equals otel2pv followed by pv2puml through saved files."""
import contextlib
import io
import json
import os
import shutil
import subprocess
import sys
import tempfile

from vlib import learn, refseq
from vlib.runner import Violation, VERIF, REPO

ID = "C14"
LEVEL = "exploration"
RULE = (
    "a case is 1..3 workflows x 1..6 traces; each workflow has a template "
    "call tree of 1..8 spans with one span type per position and up to two "
    "leaves that carry one of two types per trace, sibling intervals that "
    "overlap or not (so the PV jobs are chains with XOR spots in sync mode "
    "and get AND forks in async mode), written as nested JSON "
    "documents (1..3 files, groups x spans) with a field mapping; config "
    "sync or async; PV key mapping absent or a drawn renaming of all seven "
    "keys; batch size drawn; span types and application names also in the "
    "forms real telemetry has (route templates with /* and */, doubled "
    "slashes, URLs, quotes and braces); a fixed family of single-trace "
    "workflows with 64, 99, 100, 101, 128, 199, 200, 256 spans, sync and "
    "async. Three runs through the real entry point "
    "(tel2puml.__main__.parser + main_handler): A = otel2puml -om; B1 = "
    "otel2pv -se [-mc]; B2 = pv2puml -fp <out>/<workflow> -jn <workflow> "
    "-om [-mc] per workflow (in half of the cases the saved files are "
    "instead listed on the command line in a drawn order, or split into "
    "one file per event, interleaved, with -group-by-job). Oracle: per workflow diagram A is language-"
    "equivalent to diagram B2 and the two model files are equal; the saved "
    "PV files, read back through the inverse key renaming, equal the "
    "in-memory stream of otel_to_pv event for event (ids, fields, links as "
    "sets) and the reference sequencer; a slice of the cases is repeated as "
    "`python -m tel2puml` in fresh processes. Non-trivial: >=2 workflows and "
    "some trace whose PV job has a fork (an event with >=2 successors). "
    "Distinct by SHA-1 of the JSON case.")
ASSUMPTIONS = [
    "diagram equivalence as in C03 (bounded)",
    "the in-memory database is rebuilt by every run from the same files",
    "workflow names are usable as directory names",
]
EXHAUSTIVE = ()
BASE = 1_700_000_000 * 10**9
PV_KEYS = ["jobId", "eventId", "timestamp", "previousEventIds",
           "applicationName", "jobName", "eventType"]


# --------------------------------------------------------------------------
# case -> files
# --------------------------------------------------------------------------
def spans_of(case):
    """{workflow: {trace_id: {span_id: span dict (refseq form)}}}"""
    out = {}
    for wi, wf in enumerate(case["workflows"]):
        for ti, tr in enumerate(wf["traces"]):
            tid = f"t{wi}_{ti}"
            spans = {}
            for k, (parent, typ, a, d) in enumerate(tr):
                sid = f"{tid}_s{k}"
                u = case.get("tunit", 10**6)
                spans[sid] = dict(
                    type=typ, start=BASE + a * u, end=BASE + (a + d) * u,
                    parent=None if parent is None else f"{tid}_s{parent}",
                    app=wf["app"], job_id=tid, job_name=wf["name"])
            out.setdefault(wf["name"], {})[tid] = spans
    return out


def write_inputs(case, tmp):
    data = os.path.join(tmp, "data")
    os.makedirs(data)
    allspans = []
    for name, traces in spans_of(case).items():
        for tid, spans in traces.items():
            for sid, s in spans.items():
                allspans.append((sid, s))
    order = case.get("order")
    if order and len(order) == len(allspans):
        allspans = [allspans[i] for i in order]
    # span records sent twice (legal: the first occurrence is stored, C10)
    for i in sorted(case.get("dup_records", []), reverse=True):
        i %= len(allspans)
        allspans.insert(min(len(allspans), i + 1 + (i % 3)), allspans[i])
    nfiles = max(1, min(case.get("files", 1), len(allspans)))
    per = (len(allspans) + nfiles - 1) // nfiles
    for fi in range(nfiles):
        chunk = allspans[fi * per:(fi + 1) * per]
        groups = {}
        for sid, s in chunk:
            groups.setdefault(s["app"], []).append({
                "name": s["type"], "trace_id": s["job_id"], "span_id": sid,
                "parent_span_id": s["parent"], "workflow": s["job_name"],
                "start": str(s["start"]), "end": str(s["end"])})
        doc = {"groups": [{"app": a, "spans": ss}
                          for a, ss in groups.items()]}
        with open(os.path.join(data, f"f{fi}.json"), "w") as f:
            json.dump(doc, f)
    pre = "groups.[].spans.[]."
    fm = {k: {"key_paths": [pre + v], "value_type": "string"} for k, v in {
        "job_name": "workflow", "job_id": "trace_id", "event_type": "name",
        "event_id": "span_id", "start_timestamp": "start",
        "end_timestamp": "end", "parent_event_id": "parent_span_id"}.items()}
    fm["application_name"] = {"key_paths": ["groups.[].app"],
                              "value_type": "string"}
    cfg = {
        "ingest_data": {"data_source": "json", "data_holder": "sql"},
        "data_holders": {"sql": {"db_uri": case.get("db_uri",
                                                    "sqlite:///:memory:"),
                                 "batch_size": case.get("batch", 1000),
                                 "time_buffer": case.get("time_buffer", 0)}},
        "data_sources": {"json": {"dirpath": data, "filepath": None,
                                  "json_per_line": False,
                                  "field_mapping": fm}},
        "sequencer": {"async_flag": bool(case.get("async"))},
    }
    import yaml
    cfgp = os.path.join(tmp, "config.yaml")
    with open(cfgp, "w") as f:
        yaml.safe_dump(cfg, f)
    mcp = None
    if case.get("mapping"):
        mcp = os.path.join(tmp, "mapping.yaml")
        with open(mcp, "w") as f:
            yaml.safe_dump(case["mapping"], f)
    return cfgp, mcp


# --------------------------------------------------------------------------
# running the entry point
# --------------------------------------------------------------------------
def cli(argv, fresh=False):
    """Returns (exit status, captured output)."""
    if fresh:
        env = dict(os.environ, PYTHONPATH=os.path.join(VERIF, "shim")
                   + os.pathsep + REPO, TQDM_DISABLE="1")
        p = subprocess.run([sys.executable, "-m", "tel2puml"] + argv,
                           env=env, cwd=REPO, capture_output=True, text=True,
                           timeout=600)
        return p.returncode, (p.stdout + p.stderr)[-1500:]
    learn.install()
    import tel2puml.__main__ as tm
    from vlib import store
    store.reset_metadata()
    buf = io.StringIO()
    code = 0
    with contextlib.redirect_stdout(buf), contextlib.redirect_stderr(buf):
        try:
            args = tm.parser.parse_args(argv)
            tm.main_handler(vars(args), tm.ERROR_MESSAGES)
        except SystemExit as e:
            code = e.code if isinstance(e.code, int) else 1
    return code, buf.getvalue()[-1500:]


def model_of_file(path):
    import checks.c04 as c04
    return c04.model_of_file(path)


def canon_events(evs):
    return sorted((e["eventId"], e["eventType"], e["jobId"], e["jobName"],
                   e["applicationName"], e["timestamp"],
                   tuple(sorted(e.get("previousEventIds") or [])))
                  for e in evs)


def check_case(case, ctx=None, fresh=False):
    import checks.c03 as c03
    tmp = tempfile.mkdtemp(prefix="verif-c14-")
    try:
        cfgp, mcp = write_inputs(case, tmp)
        wfs = spans_of(case)
        outA, outB, outC = (os.path.join(tmp, x) for x in ("A", "B", "C"))
        learn.SCHED.reseed(case.get("sched", 0))
        rcA, outA_msg = cli(["-o", outA, "otel2puml", "-c", cfgp, "-om"],
                            fresh)
        argv = ["-o", outB, "otel2pv", "-c", cfgp, "-se"]
        if mcp:
            argv += ["-mc", mcp]
        rc, out = cli(argv, fresh)
        if rc != 0:
            raise Violation(f"otel2pv -se exited {rc}: {out}")
        # ---- saved files vs the in-memory stream vs the reference
        inv = {v: k for k, v in (case.get("mapping") or {}).items()}
        from tel2puml.otel_to_pv.otel_to_pv import otel_to_pv
        from tel2puml.otel_to_pv.config import IngestDataConfig
        import yaml
        from vlib import store
        store.reset_metadata()
        with open(cfgp) as f:
            config = IngestDataConfig(**yaml.safe_load(f))
        mem = {}
        with contextlib.redirect_stdout(io.StringIO()):
            for name, jobs in otel_to_pv(config, ingest_data=True):
                for job in jobs:
                    evs = list(job)
                    mem.setdefault(name, []).append(canon_events(evs))
        if set(mem) != set(wfs):
            raise Violation(f"in-memory stream has workflows {sorted(mem)}, "
                            f"data has {sorted(wfs)}")
        for name, traces in wfs.items():
            d = os.path.join(outB, name)
            if not os.path.isdir(d):
                raise Violation(f"otel2pv -se wrote no folder for {name!r}: "
                                f"{sorted(os.listdir(outB))}")
            saved = []
            for fn in sorted(os.listdir(d)):
                with open(os.path.join(d, fn)) as f:
                    try:
                        arr = json.load(f)
                    except ValueError as e:
                        raise Violation(f"saved file {name}/{fn} is not "
                                        f"valid JSON: {e}")
                if not isinstance(arr, list) or not all(
                        isinstance(e, dict) for e in arr):
                    raise Violation(f"saved file {name}/{fn} is not a list "
                                    f"of event objects")
                evs = []
                for e in arr:
                    if inv:
                        unknown = [k for k in e if k not in inv]
                        if unknown:
                            raise Violation(
                                f"saved file {name}/{fn} uses keys {unknown} "
                                f"that the mapping config does not define")
                        e = {inv[k]: v for k, v in e.items()}
                    missing = [k for k in PV_KEYS
                               if k not in e and k != "previousEventIds"]
                    if missing:
                        raise Violation(
                            f"saved file {name}/{fn}: an event lacks the "
                            f"field(s) {missing}: {e}")
                    evs.append(e)
                saved.append(canon_events(evs))
            if sorted(saved) != sorted(mem[name]):
                raise Violation(
                    f"workflow {name!r}: saved PV files differ from the "
                    f"in-memory stream:\nsaved {sorted(saved)[:2]}\nmemory "
                    f"{sorted(mem[name])[:2]}")
            want = sorted(canon_events(refseq.expected_pv(
                spans, bool(case.get("async"))).values())
                for spans in traces.values())
            if sorted(saved) != want:
                raise Violation(
                    f"workflow {name!r}: saved PV files differ from the "
                    f"reference sequences: {sorted(saved)[:1]} vs {want[:1]}")
        # ---- route B2 per workflow
        failed_b = []
        for name in wfs:
            form = case.get("b2_form", "folder")
            folder = os.path.join(outB, name)
            if form == "folder":
                argv = ["-o", outC, "pv2puml", "-fp", folder, "-jn", name,
                        "-om"]
            else:
                import random
                rng = random.Random(case.get("sched", 0) ^ 0xB2)
                paths = [os.path.join(folder, fn)
                         for fn in sorted(os.listdir(folder))]
                if form == "event_files":
                    # one JSON object per file, all jobs interleaved,
                    # grouped by job id on the command line
                    edir = os.path.join(tmp, "E", str(len(failed_b)),
                                        name.replace("/", "_"))
                    os.makedirs(edir, exist_ok=True)
                    epaths = []
                    for fi, fp in enumerate(paths):
                        with open(fp) as f:
                            for k, e in enumerate(json.load(f)):
                                ep = os.path.join(edir, f"e{fi}_{k}.json")
                                with open(ep, "w") as g:
                                    json.dump(e, g)
                                epaths.append(ep)
                    paths = epaths
                rng.shuffle(paths)
                argv = ["-o", outC, "pv2puml", "-jn", name, "-om"]
                if form == "event_files":
                    argv.append("-group-by-job")
                if mcp:
                    argv += ["-mc", mcp]
                argv += paths
            if mcp and form == "folder":
                argv += ["-mc", mcp]
            learn.SCHED.reseed(case.get("sched", 0) + 1)
            rc, out = cli(argv, fresh)
            if rc != 0:
                failed_b.append((name, out))
                continue
            if rcA != 0:
                continue
            fa = os.path.join(outA, name.replace(" ", "_"))
            fc = os.path.join(outC, name.replace(" ", "_"))
            for p in (fa + ".puml", fc + ".puml", fa + "_model.json",
                      fc + "_model.json"):
                if not os.path.exists(p):
                    raise Violation(f"expected output {p[len(tmp):]} missing")
            na, ma = model_of_file(fa + "_model.json")
            nc, mc = model_of_file(fc + "_model.json")
            if (na, ma) != (nc, mc):
                bad = sorted(t for t in set(ma) | set(mc)
                             if ma.get(t) != mc.get(t))
                raise Violation(
                    f"workflow {name!r}: model of otel2puml differs from "
                    f"model of otel2pv+pv2puml for {bad} (names {na!r}, "
                    f"{nc!r})")
            with open(fa + ".puml") as f:
                ta = f.read()
            with open(fc + ".puml") as f:
                tc = f.read()
            msg = c03.equivalent(ta, tc, case.get("sched", 0))
            if msg:
                # same model, different diagram: is it the route, or is the
                # learner unstable on this job set (C03's subject)?  Both
                # routes are run again under further schedule seeds; when
                # either route also produces the other one's language the
                # difference is not the route's.
                unstable = False
                for k in range(1, 5):
                    learn.SCHED.reseed(case.get("sched", 0) + 1000 * k)
                    oc = f"{outC}r{k}"
                    rc2, _ = cli(argv[:1] + [oc] + argv[2:], fresh)
                    if rc2 == 0:
                        with open(os.path.join(
                                oc, name.replace(" ", "_") + ".puml")) as f:
                            tc2 = f.read()
                        if not c03.equivalent(ta, tc2, 0) or \
                                c03.equivalent(tc, tc2, 0):
                            unstable = True
                            break
                    learn.SCHED.reseed(case.get("sched", 0) + 1000 * k + 1)
                    oa = f"{outA}r{k}"
                    rc2, _ = cli(["-o", oa, "otel2puml", "-c", cfgp, "-om"],
                                 fresh)
                    if rc2 == 0:
                        with open(os.path.join(
                                oa, name.replace(" ", "_") + ".puml")) as f:
                            ta2 = f.read()
                        if not c03.equivalent(tc, ta2, 0) or \
                                c03.equivalent(ta, ta2, 0):
                            unstable = True
                            break
                if unstable:
                    if ctx:
                        ctx.count("learner_unstable_on_same_data_(C03)")
                    continue
                raise Violation(
                    f"workflow {name!r}: otel2puml and otel2pv+pv2puml give "
                    f"different languages: {msg}\notel2puml:\n{ta}\n"
                    f"pv2puml:\n{tc}")
        if (rcA != 0) != bool(failed_b):
            raise Violation(
                f"otel2puml exited {rcA} but pv2puml on the saved files "
                f"failed for {[n for n, _ in failed_b]}: "
                f"{outA_msg if rcA else failed_b[0][1]}")
        if rcA != 0 and ctx:
            ctx.count("both_routes_fail_alike_(C01)")
    finally:
        shutil.rmtree(tmp, ignore_errors=True)


def replay(case):
    try:
        check_case(case, fresh=bool(case.get("fresh")))
    except Violation as v:
        return str(v)
    return None


def classify(case):
    wfs = spans_of(case)
    fork = False
    for traces in wfs.values():
        for spans in traces.values():
            pv = refseq.expected_pv(spans, bool(case.get("async")))
            succ = {}
            for e in pv.values():
                for p in e["previousEventIds"]:
                    succ[p] = succ.get(p, 0) + 1
            if any(v >= 2 for v in succ.values()):
                fork = True
    cl = [f"workflows={len(wfs)}", "async" if case.get("async") else "sync",
          *(["empty_application_name"] if any(
              w["app"] == "" for w in case["workflows"]) else []),
          "custom_mapping" if case.get("mapping") else "default_mapping",
          f"files={case.get('files', 1)}",
          f"pv2puml_input={case.get('b2_form', 'folder')}"]
    if fork:
        cl.append("pv_job_with_fork")
    if any(len(tr) != len(w["traces"][0]) for w in case["workflows"]
           for tr in w["traces"]):
        cl.append("varying_number_of_same_typed_calls")
    if any("/*" in t[1] or "//" in t[1] or "//" in w["app"] or "/*" in w["app"]
           for w in case["workflows"] for tr in w["traces"] for t in tr):
        cl.append("values_that_look_like_comments")
    if any(len(tr) >= 64 for w in case["workflows"] for tr in w["traces"]):
        cl.append("trace_with_>=64_spans")
    if any(set("[]*?") & set(n) for n in wfs):
        cl.append("workflow_name_with_glob_character")
    if any(t[1].endswith(" ") for w in case["workflows"]
           for tr in w["traces"] for t in tr):
        cl.append("span_types_differing_by_trailing_space")
    if case.get("fresh"):
        cl.append("fresh_processes")
    return len(wfs) >= 2 and fork, cl


def strategy():
    """Workflows are built from a template call tree with one span type per
    position (so that the PV jobs are executions of a block-structured
    definition with distinct names: chains in sync mode, AND forks where
    sibling intervals overlap in async mode) and a few leaves that carry one
    of two types (XOR); every trace instantiates the template."""
    from hypothesis import strategies as st

    @st.composite
    def workflow(draw, name, wi):
        n = draw(st.integers(1, 8))
        # span types as they look in real telemetry: plain, route templates
        # (contain "/*" and "*/"), doubled slashes, JSON-ish punctuation
        deco = draw(st.sampled_from(
            ["{}", "{}", "{}", "GET /{}/*/items", "{}//x", "rpc:{}\"q\"",
             "{} {{a: 1}}"]))
        tmpl = []
        used = {}
        for k in range(n):
            parent = None if k == 0 else draw(st.integers(0, k - 1))
            a = draw(st.integers(0, 12))
            while a in used.setdefault(parent, set()):
                a += 1
            used[parent].add(a)
            tmpl.append([parent, deco.format(f"{chr(65 + wi)}{k}"), a,
                         draw(st.integers(1, 12))])
        suffix = draw(st.sampled_from(["x", "x", " "]))
        parents = {t[0] for t in tmpl}
        leaves = [k for k in range(1, n) if k not in parents]
        alts = draw(st.lists(st.sampled_from(leaves), max_size=2,
                             unique=True)) if leaves else []
        # a leaf that some traces call several times in parallel (same
        # type, same parent, same interval): branch counts
        twin = draw(st.sampled_from(leaves)) if leaves and \
            draw(st.integers(0, 3)) == 0 else None
        traces = []
        for _ in range(draw(st.integers(1, 6))):
            tr = [list(t) for t in tmpl]
            for k in alts:
                if draw(st.booleans()):
                    # the alternative type differs by a suffix - in a third
                    # of the workflows only by trailing white space
                    tr[k][1] = tr[k][1] + suffix
            if twin is not None:
                for _ in range(draw(st.integers(0, 2))):
                    c = list(tr[twin])
                    c[2] = c[2] + 100 + len(tr)   # distinct sibling start,
                    tr.append(c)                  # far from the others
            traces.append(tr)
        return {"name": name, "app": draw(st.sampled_from(
            ["app", "svc-a", "B", "", "http://svc:80/a", "a/*b*/c"])),
            "traces": traces}

    @st.composite
    def build(draw):
        names = draw(st.lists(st.sampled_from(
            ["wf", "Orders", "pay ments", "wf2", "x.y", "wf[2]", "w*"]),
            min_size=draw(st.sampled_from([1, 2, 2, 3])),
            max_size=3, unique=True))
        wfs = [draw(workflow(nm, wi)) for wi, nm in enumerate(names)]
        total = sum(len(t) for w in wfs for t in w["traces"])
        case = {"workflows": wfs, "async": draw(st.integers(0, 9)) < 7,
                "files": draw(st.integers(1, 3)),
                "batch": draw(st.sampled_from([1, 2, 5, 1000])),
                "order": list(draw(st.permutations(list(range(total))))),
                "sched": draw(st.integers(0, 2**31 - 1))}
        form = draw(st.sampled_from(["folder", "folder", "files",
                                     "event_files"]))
        if form != "folder":
            case["b2_form"] = form
        if draw(st.booleans()):
            vals = draw(st.permutations(
                ["job_identifier", "eventIdNew", "time_of_event", "prev",
                 "app_name", "jobName", "eventId"]))
            # note: values may reuse the *names* of other PV keys
            case["mapping"] = dict(zip(PV_KEYS, vals))
        return case
    return build()


def shrinker(case):
    wfs = case["workflows"]
    for i in range(len(wfs)):
        if len(wfs) > 1:
            c = dict(case, workflows=wfs[:i] + wfs[i + 1:])
            c.pop("order", None)
            yield c
    for i, w in enumerate(wfs):
        for j in range(len(w["traces"])):
            if len(w["traces"]) > 1:
                nw = dict(w, traces=w["traces"][:j] + w["traces"][j + 1:])
                c = dict(case, workflows=wfs[:i] + [nw] + wfs[i + 1:])
                c.pop("order", None)
                yield c
    if case.get("mapping"):
        c = dict(case)
        c.pop("mapping")
        yield c
    if case.get("files", 1) > 1:
        yield dict(case, files=1)
    if case.get("order"):
        c = dict(case)
        c.pop("order")
        yield c


def plan(tier):
    return {"shards": 16, "budget_s": 240 if tier == "quick" else 3000,
            "hashseeds": [0, 1, 2, 3],
            "coverage": {"bounds": "<=3 workflows x <=6 traces x <=8 spans"}}


def run_shard(ctx):
    def fn(case):
        nt, cl = classify(case)
        ctx.record(case, nt, cl)
        check_case(case, ctx)

    # traces with a round number of spans (chunk sizes of writers): one
    # root whose children are called one after the other
    sizes = [64, 100, 128, 200, 256, 99, 101, 199]
    for i, size in enumerate(sizes):
        if i % ctx.nshards != ctx.shard and \
                (i + len(sizes)) % ctx.nshards != ctx.shard:
            continue
        asyn = (i % ctx.nshards != ctx.shard)
        tr = [[None, "R", 0, 3 * size + 5]] + [
            [0, f"S{k}", 1 + 3 * k, 2] for k in range(size - 1)]
        case = {"workflows": [{"name": "big", "app": "app", "traces": [tr]}],
                "async": asyn, "files": 1, "batch": 1000,
                "sched": ctx.seed * 100 + i}
        nt, cl = classify(case)
        ctx.record(case, True, cl)
        try:
            check_case(case, ctx)
        except Violation as v:
            ctx.violation(case, f"[trace of {size} spans] " + str(v))
            return
    n = 30 if ctx.tier == "quick" else 400
    if ctx.run_given(strategy(), fn, n, shrinker=shrinker):
        return
    # a slice through fresh interpreter processes
    nfresh = 1 if ctx.tier == "quick" else 6

    def fn2(case):
        case = dict(case, fresh=True)
        nt, cl = classify(case)
        ctx.record(case, nt, cl)
        check_case(case, ctx, fresh=True)
    if ctx.tier != "quick" or ctx.shard < 4:
        ctx.run_given(strategy(), fn2, nfresh, shrinker=shrinker, salt=7)
