"""C06 - gate inference explains all observed successor sets; exact without
mixed OR.  Complete enumeration of gate trees, not sampling."""
import itertools

from vlib.runner import Violation

ID = "C06"
LEVEL = "exploration"
RULE = (
    "complete enumeration of gate trees over n distinct leaf labels (n<=5 "
    "quick, n<=6 thorough): a tree is a leaf or (op in AND/OR/XOR, >=2 "
    "children given by a set partition of its leaves), op differs from the "
    "parent's op, operator depth <=3; each tree is fed with its FULL family "
    "of outcome sets (AND = union of one outcome per child, OR = the same "
    "over every non-empty subset of children, XOR = exactly one child). "
    "Thorough adds Hypothesis-drawn trees over 7 leaves. Oracle: the returned "
    "pm4py tree interpreted with the same three rules admits every given set "
    "(soundness, all trees) and exactly those sets (exactness, trees in which "
    "no OR has a non-leaf child and no AND has two OR children). For every "
    "tree with <=4 leaves and every fifth larger one the answer must also be "
    "independent of earlier inferences in the process (a counted variant in "
    "between) and of the way the sets reached an Event (substitution of an "
    "event type through the Event API, gate tree read before and after). "
    "The same trees are inferred again under four naming schemes "
    "(names that are concatenations of each other, whole words likewise, "
    "names that are process-tree operator tokens, names differing by white "
    "space): the verdict must not depend on how events are called; the "
    "name 'tau' is an open finding and is not generated. Distinct by "
    "the tree itself; non-trivial: >=3 leaves and >=2 operator kinds.")
ASSUMPTIONS = [
    "outcome semantics of AND/OR/XOR as written in vlib of this file (30 "
    "lines) is used for both the source tree and the inferred tree",
    "uuid4 and datetime.now in tel2puml.logic_detection only label pm4py "
    "cases; they are left unpatched here",
]
EXHAUSTIVE = ("quick", "thorough")

LABELS = "abcdefg"
OPS = ("AND", "OR", "XOR")
# naming schemes: event types are arbitrary strings, the inferred gates must
# not depend on how the events are called.  Every labelled tree is enumerated
# (set partitions of labelled leaves), so one assignment per scheme puts
# every name at every position.
NAMINGS = {
    "concatenations": ["a", "b", "ab", "ba", "aab", "abab"],
    "concatenated_words": ["check", "out", "checkout", "outcheck",
                           "checkoutout", "outout"],
    "operator_tokens": ["X", "+", "O", "->", "*", "( a, b )"],
    "white_space": ["a b", "a  b", "a b ", "a", "b", " a"],
}
# an event type called "tau" is taken for pm4py's silent leaf (open finding
# C06-event-named-tau): never generated, replayed on every run
RESERVED_NAMINGS = {"tau_as_event_name": ["tau", "X", "+", "O", "->", "*"]}


def rename(t, mp):
    if isinstance(t, str):
        return mp.get(t, t)
    return (t[0], tuple(rename(k, mp) for k in t[1]))


# ---- enumeration ---------------------------------------------------------
def set_partitions(items, min_blocks=2):
    """All partitions of the tuple `items` into >= min_blocks blocks."""
    items = list(items)
    if not items:
        return

    def rec(i, blocks):
        if i == len(items):
            if len(blocks) >= min_blocks:
                yield tuple(tuple(b) for b in blocks)
            return
        x = items[i]
        for b in blocks:
            b.append(x)
            yield from rec(i + 1, blocks)
            b.pop()
        blocks.append([x])
        yield from rec(i + 1, blocks)
        blocks.pop()

    yield from rec(0, [])


def trees(leaves, parent_op=None, depth=3):
    """All gate trees whose leaf set is exactly `leaves`."""
    if len(leaves) == 1:
        yield leaves[0]
        return
    if depth == 0:
        return
    for op in OPS:
        if op == parent_op:
            continue
        for part in set_partitions(leaves):
            child_lists = [list(trees(b, op, depth - 1)) for b in part]
            if any(not c for c in child_lists):
                continue
            for combo in itertools.product(*child_lists):
                yield (op, combo)


def all_trees(n):
    return list(trees(tuple(LABELS[:n])))


# ---- semantics -----------------------------------------------------------
def outcomes(t):
    if isinstance(t, str):
        return {frozenset([t])}
    op, kids = t
    ko = [outcomes(k) for k in kids]
    if op == "XOR":
        return set().union(*ko)
    if op == "AND":
        subsets = [tuple(range(len(kids)))]
    else:
        subsets = [c for r in range(1, len(kids) + 1)
                   for c in itertools.combinations(range(len(kids)), r)]
    out = set()
    for sub in subsets:
        for combo in itertools.product(*[ko[i] for i in sub]):
            out.add(frozenset().union(*combo))
    return out


def in_exact_class(t):
    if isinstance(t, str):
        return True
    op, kids = t
    if op == "OR" and any(not isinstance(k, str) for k in kids):
        return False
    if op == "AND" and sum(1 for k in kids
                           if not isinstance(k, str) and k[0] == "OR") >= 2:
        return False
    return all(in_exact_class(k) for k in kids)


def op_kinds(t, acc=None):
    acc = set() if acc is None else acc
    if not isinstance(t, str):
        acc.add(t[0])
        for k in t[1]:
            op_kinds(k, acc)
    return acc


def n_leaves(t):
    return 1 if isinstance(t, str) else sum(n_leaves(k) for k in t[1])


def from_pm4py(node):
    """pm4py ProcessTree -> our tuple form."""
    if node.operator is None:
        return node.label if node.label is not None else ("TAU", ())
    v = node.operator.value
    op = {"+": "AND", "O": "OR", "X": "XOR"}.get(v)
    if op is None:
        raise Violation(f"operator {v!r} in a gate tree inferred from sets "
                        f"of distinct events")
    return (op, tuple(from_pm4py(c) for c in node.children))


def outcomes_inferred(t):
    if isinstance(t, str):
        return {frozenset([t])}
    if t[0] == "TAU":
        return {frozenset()}
    if len(t[1]) == 0:
        return {frozenset()}
    op, kids = t
    ko = [outcomes_inferred(k) for k in kids]
    if op == "XOR":
        return set().union(*ko)
    if op == "AND":
        subsets = [tuple(range(len(kids)))]
    else:
        subsets = [c for r in range(1, len(kids) + 1)
                   for c in itertools.combinations(range(len(kids)), r)]
    out = set()
    for sub in subsets:
        for combo in itertools.product(*[ko[i] for i in sub]):
            out.add(frozenset().union(*combo))
    return out


def show(t):
    if isinstance(t, str):
        return t
    return t[0] + "(" + ",".join(show(k) for k in t[1]) + ")"


def to_json(t):
    return t if isinstance(t, str) else [t[0], [to_json(k) for k in t[1]]]


def from_json(j):
    return j if isinstance(j, str) else (j[0], tuple(from_json(k) for k in j[1]))


# ---- the check -----------------------------------------------------------
def check_tree(t):
    from tel2puml.events import EventSet
    from tel2puml.logic_detection import calculate_logic_gates
    fam = outcomes(t)
    event_sets = {EventSet(sorted(o)) for o in fam}
    try:
        res = calculate_logic_gates(event_sets)
    except Violation:
        raise
    except Exception as e:
        raise Violation(f"calculate_logic_gates raised {type(e).__name__}: "
                        f"{e} for the outcome family of {show(t)}")
    inferred = from_pm4py(res)
    admitted = outcomes_inferred(inferred)
    missing = fam - admitted
    if missing:
        raise Violation(
            f"unsound: source {show(t)} -> inferred {show(inferred)} does "
            f"not admit observed set(s) {sorted(sorted(m) for m in missing)[:3]}")
    if in_exact_class(t):
        extra = admitted - fam
        if extra:
            raise Violation(
                f"inexact: source {show(t)} (in the exact class) -> inferred "
                f"{show(inferred)} admits unobserved set(s) "
                f"{sorted(sorted(m) for m in extra)[:3]}")


def check_interleaved(t):
    """The answer for one family must not depend on what was inferred before
    in the same process, nor on how the sets reached an Event:
    (1) infer the family, infer a counted variant of it (one set with a
    repeated event - branch counts), infer the family again: first and third
    answers admit the same sets;
    (2) through the Event API, as loop detection uses it: record the family,
    read the gate tree, substitute one event type by a new one (add the
    renamed sets, withdraw the sets with the old type - the number of sets
    stays the same), read again: the answer equals a fresh inference of the
    renamed family."""
    from tel2puml.events import EventSet, Event
    from tel2puml.logic_detection import calculate_logic_gates
    fam = outcomes(t)
    if len(fam) < 2:
        return

    def infer(sets):
        return outcomes_inferred(from_pm4py(calculate_logic_gates(
            {EventSet(sorted(o)) for o in sets})))
    try:
        first = infer(fam)
        big = max(fam, key=lambda o: (len(o), sorted(o)))
        x = sorted(big)[0]
        counted = {EventSet(sorted(o) + ([x] if o == big else []))
                   for o in fam}
        calculate_logic_gates(counted)
        third = infer(fam)
    except Violation:
        raise
    except Exception as e:
        raise Violation(f"interleaved inference raised {type(e).__name__}: "
                        f"{e} for {show(t)}")
    if first != third:
        raise Violation(
            f"inference depends on earlier calls: {show(t)} admits "
            f"{sorted(sorted(o) for o in first)[:4]} when inferred first and "
            f"{sorted(sorted(o) for o in third)[:4]} after a counted variant "
            f"of the same family was inferred")
    labels = sorted({l for o in fam for l in o})
    old = labels[0]
    renamed = {frozenset("L" if l == old else l for l in o) for o in fam}
    ev = Event("X")
    for o in sorted(fam, key=sorted):
        ev.update_event_sets(sorted(o))
    _ = ev.logic_gate_tree
    for o in sorted(renamed, key=sorted):
        if "L" in o:
            ev.update_event_sets(sorted(o))
    ev.remove_event_type_from_event_sets(old)
    got = outcomes_inferred(from_pm4py(ev.logic_gate_tree))
    want = infer(renamed)
    if got != want:
        raise Violation(
            f"Event.logic_gate_tree is stale after substituting {old} by L "
            f"in the recorded sets of {show(t)}: it admits "
            f"{sorted(sorted(o) for o in got)[:4]}, a fresh inference of the "
            f"current sets admits {sorted(sorted(o) for o in want)[:4]}")


def replay(case):
    try:
        if case.get("interleaved"):
            check_interleaved(from_json(case["tree"]))
            return None
        t = from_json(case["tree"])
        if case.get("names"):
            t = rename(t, dict(zip(LABELS, case["names"])))
        check_tree(t)
    except Violation as v:
        return str(v)
    return None


def plan(tier):
    return {"shards": 16, "budget_s": 200 if tier == "quick" else 5400,
            "coverage": {"bounds": "leaves <=5 (quick) / <=6 exhaustive + "
                         "drawn 7-leaf trees (thorough); depth <=3"}}


def tree_strategy(n):
    from hypothesis import strategies as st

    @st.composite
    def build(draw, leaves, parent_op, depth):
        if len(leaves) == 1:
            return leaves[0]
        op = draw(st.sampled_from([o for o in OPS if o != parent_op]))
        if depth == 1:
            return (op, tuple(leaves))
        # random partition into >=2 blocks
        k = draw(st.integers(2, len(leaves)))
        assign = draw(st.lists(st.integers(0, k - 1), min_size=len(leaves),
                               max_size=len(leaves)))
        blocks = {}
        for leaf, a in zip(leaves, assign):
            blocks.setdefault(a, []).append(leaf)
        bl = list(blocks.values())
        if len(bl) < 2:
            bl = [bl[0][:1], bl[0][1:]]
        return (op, tuple(draw(build(tuple(b), op, depth - 1)) for b in bl))

    perm = st.permutations(list(LABELS[:n]))
    return perm.flatmap(lambda p: build(tuple(p), None, 3))


def run_shard(ctx):
    max_n = 5 if ctx.tier == "quick" else 6
    idx = 0
    for n in range(1, max_n + 1):
        ts = all_trees(n)
        if ctx.shard == 0:
            ctx.notes[f"trees_{n}_leaves"] = len(ts)
            ctx.notes[f"exact_class_{n}_leaves"] = sum(
                1 for t in ts if in_exact_class(t))
        for t in ts:
            idx += 1
            if idx % ctx.nshards != ctx.shard:
                continue
            if ctx.out_of_time():
                ctx.skipped_time += 1
                continue
            case = {"tree": to_json(t)}
            kinds = op_kinds(t)
            ctx.record(case, n >= 3 and len(kinds) >= 2,
                       [f"leaves={n}", "exact_class" if in_exact_class(t)
                        else "sound_only"] + sorted(kinds),
                       sample={"tree": show(t),
                               "outcome_sets": sorted(sorted(o) for o in outcomes(t))})
            try:
                check_tree(t)
            except Violation as v:
                ctx.violation(case, str(v))
                return
            if n >= 2 and (n <= 4 or idx % 5 == 0):
                for scheme, names in NAMINGS.items():
                    ctx.count("renamed_trees_" + scheme)
                    try:
                        check_tree(rename(t, dict(zip(LABELS, names))))
                    except Violation as v:
                        ctx.violation(dict(case, names=names),
                                      f"[naming scheme {scheme}] " + str(v))
                        return
                ctx.exclude("C06-event-named-tau")
            if n <= 4 or idx % 5 == 0:
                ctx.count("interleaved_and_event_api_checks")
                try:
                    check_interleaved(t)
                except Violation as v:
                    ctx.violation(dict(case, interleaved=True), str(v))
                    return
    if ctx.tier == "thorough":
        def fn(case):
            t = from_json(case["tree"])
            kinds = op_kinds(t)
            ctx.record(case, len(kinds) >= 2,
                       ["leaves=7", "exact_class" if in_exact_class(t)
                        else "sound_only"])
            check_tree(t)
        ctx.run_given(tree_strategy(7).map(lambda t: {"tree": to_json(t)}),
                      fn, 12, shrinker=lambda c: iter(()))
