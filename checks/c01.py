"""C01 - the learned diagram accepts every job it was learned from."""
from hypothesis import strategies as st

from vlib import gen, learn, pumlsem as ps, pvcase
from vlib.runner import Violation

ID = "C01"
LEVEL = "exploration"
RULE = (
    "a case is (definition, loop bound k in 1..3, complete execution set or "
    "a drawn subset, schedule seed); definitions are generated from the "
    "block grammar of DESIGN.md 2.2 (<=16 event types, depth <=3, nested "
    "loops, breaks, detach, bunched merges, several start events, exotic "
    "names) or taken from the 63 corpus files; plus two families that are "
    "enumerated completely on every run: 1000 loop/break shapes and 320 "
    "nested-fork shapes (complete sets) and every proper subset of the jobs of four small plain OR forks "
    "(partial views). The jobs are produced by the "
    "reference semantics, learned by the real pv_to_puml_string under a step "
    "bound, and each input job must be accepted by the emitted diagram "
    "(reference acceptor). Non-trivial: the definition has a fork or loop "
    "and the job set has >=2 distinct jobs. Distinct by SHA-1 of the JSON "
    "case.")
ASSUMPTIONS = [
    "vlib/pumlsem.py is the meaning of the diagram dialect (self-tested "
    "against the corpus and by enumerate/accept consistency)",
    "shim/test_event_generator stands in for xtuml/janus GraphSolution",
    "termination is decided by a step bound of 2000*(types+1) walk steps",
    "cases whose input satisfies the predicate of an open known finding are "
    "not executed (counted under excluded_known)",
]
EXHAUSTIVE = ()   # the loop-shape family is enumerated completely, see counters


def run_case(case, ctx=None):
    m = pvcase.materialise(case)
    if m.too_large or not m.jobs:
        if ctx:
            ctx.count("skipped_too_large" if m.too_large else "skipped_empty")
        return
    fam = pvcase.known_family(case, m, "C01")
    if fam and not case.get("force"):
        if ctx:
            ctx.exclude(fam)
        return
    if ctx:
        nt = len(m.jobs) >= 2 and any(
            isinstance(n, (ps.Fork, ps.Loop)) for n in ps.walk(m.ast))
        ctx.record(case, nt, pvcase.case_classes(case, m),
                   sample={"definition": ps.show(m.ast), "k": case["k"],
                           "jobs": len(m.jobs), "complete": m.complete})
    r = learn.learn_jobs(m.jobs, "job", case["sched"])
    if r[0] == "nonterm":
        raise Violation(f"learner does not terminate: {r[1]}")
    if r[0] == "exc":
        raise Violation(f"learner raised {r[1]}: {r[2]}")
    msg = learn.check_accepts_all(r[1], m.jobs)
    if msg:
        raise Violation(msg + "\nemitted:\n" + r[1])


def replay(case):
    try:
        run_case(dict(case, force=True))
    except Violation as v:
        return str(v)
    return None


def covfuzz_target():
    """strategy and oracle for the coverage-guided stage (vlib/covfuzz.py)"""
    return pvcase.cases(), lambda c: run_case(c)


def plan(tier):
    return {"shards": 16, "budget_s": 240 if tier == "quick" else 3000,
            "hashseeds": [0, 1, 2, 3],
            "coverage": {"bounds": "<=16 event types per definition, fork "
                         "depth <=3, <=400 jobs per set, loops 1..3"}}


def run_shard(ctx):
    files = pvcase.corpus_files()
    if len(files) != 63:
        from vlib.runner import HarnessError
        raise HarnessError(f"corpus has {len(files)} files, expected 63")
    # corpus slice of this shard, complete sets with k=2 and k=3
    for i, (name, _) in enumerate(files):
        if i % ctx.nshards != ctx.shard:
            continue
        for k in (2, 3):
            case = {"corpus": name, "k": k, "pick": None,
                    "sched": ctx.seed * 1000 + i}
            try:
                run_case(case, ctx)
            except Violation as v:
                ctx.violation(case, str(v))
                return
    # exhaustive partial views of plain OR forks
    for tag, case in pvcase.partial_or_cases(ctx.shard, ctx.nshards,
                                             ctx.tier):
        ctx.count("partial_or_views_enumerated")
        try:
            run_case(case, ctx)
        except Violation as v:
            ctx.violation(case, f"[partial view of {tag}] " + str(v))
            return
    # exhaustive nested-fork family (320 definitions, complete sets)
    for tag, case in pvcase.fork_shape_cases(ctx.seed, ctx.shard,
                                             ctx.nshards):
        ctx.count("fork_shapes_enumerated")
        try:
            run_case(dict(case, k=2) if ID == "C02" else case, ctx)
        except Violation as v:
            ctx.violation(case, f"[fork shape {tag}] " + str(v))
            return
    # directly nested (bunched) forks (24 definitions, outside F)
    for i, (tag, ast) in enumerate(gen.bunched_fork_shapes()):
        if i % ctx.nshards != ctx.shard:
            continue
        case = {"defn": ps.to_json(ast), "k": 2 if ID == "C02" else 1,
                "pick": None, "sched": ctx.seed * 1000 + i}
        ctx.count("bunched_fork_shapes_enumerated")
        try:
            run_case(case, ctx)
        except Violation as v:
            ctx.violation(case, f"[bunched shape {tag}] " + str(v))
            return
    # loops ending in a fork inside nested forks (24 definitions)
    for i, (tag, ast) in enumerate(gen.deep_loop_fork_shapes()):
        if i % ctx.nshards != ctx.shard:
            continue
        case = {"defn": ps.to_json(ast), "k": 2, "pick": None,
                "sched": ctx.seed * 1000 + i}
        ctx.count("deep_loop_fork_shapes_enumerated")
        try:
            run_case(case, ctx)
        except Violation as v:
            ctx.violation(case, f"[deep shape {tag}] " + str(v))
            return
    # richer break decisions (forks / loops inside the break branch)
    for tag, case in pvcase.break_branch_cases(ctx.seed, ctx.shard,
                                               ctx.nshards, False):
        ctx.count("break_branch_shapes_enumerated")
        try:
            run_case(case, ctx)
        except Violation as v:
            ctx.violation(case, f"[break branch shape {tag}] " + str(v))
            return
    # exhaustive loop/break family (1000 definitions, complete sets, k=2)
    for tag, case in pvcase.loop_shape_cases(ctx.seed, ctx.shard,
                                             ctx.nshards):
        ctx.count("loop_shapes_enumerated")
        try:
            run_case(case, ctx)
        except Violation as v:
            ctx.violation(case, f"[loop shape {tag}] " + str(v))
            return
    n = 150 if ctx.tier == "quick" else 4000
    ctx.run_given(pvcase.cases(), lambda c: run_case(c, ctx), n,
                  shrinker=pvcase.shrinker)
    if ctx.violations:
        return
    from vlib import covfuzz
    if ctx.tier == "thorough":
        covfuzz.run_stage(ctx, ID, runs=6000)
    elif ctx.shard < 4:
        covfuzz.run_stage(ctx, ID, runs=120, timeout=120)
