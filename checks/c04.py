"""C04 - updating a saved model equals learning from all data at once."""
import json
import os
import random
import shutil
import tempfile

from vlib import learn, pumlsem as ps, pvcase
from vlib.runner import Violation

ID = "C04"
LEVEL = "exploration"
RULE = (
    "(a) histories: a case is (definition, loop bound, complete set or "
    "subset, a job name (some with spaces), a drawn order of the jobs, split points cutting it into 2-3 "
    "non-empty consecutive chunks - ALL split points when the set has <=6 "
    "jobs - schedule seed). Every chunk is a separate call of the real "
    "dispatcher otel_to_puml(components='pv2puml') on job files with "
    "output_puml_models=True; every later chunk passes the model file of "
    "the previous call as input_puml_models (the functions behind -om/-im). "
    "Oracle: the final diagram is language-equivalent (as in C03) to the "
    "diagram of one call on all files; the final model file equals the "
    "model of all-at-once ingestion (sets of counted multisets). (b) model "
    "files: generated models (<=6 event types, counts up to 4, empty and "
    "repeated sets) must satisfy load(save(M)) = M. Non-trivial (a): >=2 "
    "non-empty chunks, the definition has a fork, and some event type with "
    "a fork or loop behind it does not occur in the last chunk; (b): some "
    "count > 1. One history in eight is a branch-count history (C03's "
    "family: the same successor types with different multiplicities arrive "
    "in different chunks), compared by model file and by text up to branch "
    "order. (c) OTel-route histories: a C14 data set (1..3 workflows) is "
    "delivered in two parts (drawn per trace); `otel2puml -om` on part 1, "
    "then `otel2puml -im <model of every workflow of part 1> -om` on part "
    "2 through the real entry point, against `otel2puml -om` on "
    "everything: per workflow of part 2 equal model files and equivalent "
    "diagrams; non-trivial: a workflow occurs in both parts with different "
    "sets of trace shapes. Distinct by SHA-1 of the JSON case.")
ASSUMPTIONS = [
    "language equivalence is bounded (loops <=2, 1500 executions)",
    "the chunks of a history use fresh temp directories; files are written "
    "as one JSON array per job",
    "cases whose complete input satisfies an open known-finding predicate "
    "listed for C04 are not executed",
]
EXHAUSTIVE = ()


def write_jobs(dirpath, pv_jobs, tag):
    paths = []
    for i, job in enumerate(pv_jobs):
        p = os.path.join(dirpath, f"{tag}_{i}.json")
        with open(p, "w") as f:
            json.dump(job, f)
        paths.append(p)
    return paths


def run_dispatch(files, outdir, name, model_in=None):
    learn.install()
    from tel2puml.otel_to_puml import otel_to_puml
    opts = {"file_list": files, "job_name": name, "group_by_job_id": False}
    glob = {"input_puml_models": [model_in] if model_in else [],
            "output_puml_models": True}
    import contextlib
    import io
    with contextlib.redirect_stdout(io.StringIO()):     # tqdm.write chatter
        otel_to_puml(pv_to_puml_options=opts, global_options=glob,
                     output_file_directory=outdir, components="pv2puml")
    stem = name.replace(" ", "_")
    with open(os.path.join(outdir, f"{stem}.puml")) as f:
        text = f.read()
    return text, os.path.join(outdir, f"{stem}_model.json")


def model_of_file(path):
    with open(path) as f:
        d = json.load(f)
    out = {}
    for e in d["events"]:
        def fam(key):
            return frozenset(
                tuple(sorted((x["eventType"], x["count"]) for x in s))
                for s in e[key])
        out[e["eventType"]] = (fam("outgoingEventSets"),
                               fam("incomingEventSets"))
    return d["job_name"], out


def guarded(fn, *a):
    """('ok', value) | ('exc', Class, msg) - with the step bound."""
    learn._STEPS["n"] = 0
    learn._STEPS["limit"] = 2000 * 40
    try:
        return ("ok", fn(*a))
    except learn.NonTermination as e:
        return ("nonterm", str(e))
    except Exception as e:
        return ("exc", type(e).__name__, str(e)[:300])
    finally:
        learn._STEPS["limit"] = 0


def splits_of(case, n):
    sp = case.get("splits")
    if sp:
        return [s for s in sp if 0 < s < n] or [max(1, n // 2)]
    return [max(1, n // 2)]


class _Bcnt:
    """stand-in for a materialised case: branch-count job sets (see C03)"""

    def __init__(self, case):
        import checks.c03 as c03
        self.jobs = c03.bcnt_jobs(case["bcnt"])
        self.ast = ps.Seq(())
        self.too_large = False
        self.features = ("branch_counts",)
        self.complete = True


def run_history(case, ctx=None):
    import checks.c03 as c03
    bcnt = "bcnt" in case
    m = _Bcnt(case) if bcnt else pvcase.materialise(case)
    if m.too_large or len(m.jobs) < 2:
        if ctx:
            ctx.count("skipped_too_large_or_single_job")
        return
    fam = None if bcnt else pvcase.known_family(case, m, "C04")
    if fam and not case.get("force"):
        if ctx:
            ctx.exclude(fam)
        return
    rng = random.Random(case["sched"] ^ 0xC04)
    jobs = list(m.jobs)
    if bcnt:
        pass          # the order of the counts is part of the case
    elif case.get("order"):
        jobs = [jobs[i] for i in case["order"] if i < len(jobs)]
    else:
        rng.shuffle(jobs)
    if len(jobs) > 60:
        jobs = jobs[:60]
    n = len(jobs)
    cuts = sorted(set(splits_of(case, n)))
    chunks, prev = [], 0
    for c in cuts + [n]:
        chunks.append(jobs[prev:c])
        prev = c
    chunks = [c for c in chunks if c]
    wf = case.get("name", "wf")
    pv = [[learn.job_to_pv(j, wf, rng=rng) for j in ch] for ch in chunks]
    if ctx:
        # event types with a fork/loop behind them that do not recur in the
        # last chunk
        model = ps.model_of_jobs(jobs)
        last_types = {t for j in chunks[-1] for t, _ in j}
        forky = {t for t, (succ, _) in model.items()
                 if len(succ) > 1 or any(len(s) > 1 or s[0][1] > 1
                                         for s in succ)}
        absent = bool(forky - last_types)
        has_fork = any(isinstance(x, (ps.Fork, ps.Loop))
                       for x in ps.walk(m.ast))
        cl = (["branch_counts"] if bcnt else pvcase.case_classes(case, m)) \
            + [f"chunks={len(chunks)}"]
        if bcnt:
            has_fork = True
            absent = True
        if " " in wf:
            cl.append("job_name_with_space")
        if absent:
            cl.append("fork_event_absent_from_last_chunk")
        ctx.record(case, len(chunks) >= 2 and has_fork and absent, cl,
                   sample={"definition": ps.show(m.ast),
                           "chunk_sizes": [len(c) for c in chunks]})
    tmp = tempfile.mkdtemp(prefix="verif-c04-")
    try:
        learn.SCHED.reseed(case["sched"])
        # all at once
        d0 = os.path.join(tmp, "all")
        os.makedirs(d0)
        files = write_jobs(d0, [j for ch in pv for j in ch], "job")
        files_all = files
        r_all = guarded(run_dispatch, files, os.path.join(tmp, "out_all"),
                        wf)
        # chunked
        model_in = None
        r_last = None
        for i, ch in enumerate(pv):
            di = os.path.join(tmp, f"in{i}")
            os.makedirs(di)
            files = write_jobs(di, ch, "job")
            learn.SCHED.reseed(case["sched"] + i + 1)
            model_prev = model_in
            r_last = guarded(run_dispatch, files,
                             os.path.join(tmp, f"out{i}"), wf, model_in)
            if r_last[0] != "ok":
                if i < len(pv) - 1:
                    # an intermediate prefix of the data cannot be learned:
                    # when the same prefix supplied in one run fails too it
                    # is a partial view (C01's subject) - no model file,
                    # nothing to compare.  When the one-run route works the
                    # failure is the history's.
                    dp = os.path.join(tmp, f"prefix{i}")
                    os.makedirs(dp)
                    fp = write_jobs(dp, [j for c2 in pv[:i + 1] for j in c2],
                                    "job")
                    learn.SCHED.reseed(case["sched"] + i + 1)
                    r_pre = guarded(run_dispatch, fp,
                                    os.path.join(tmp, f"out_prefix{i}"), wf)
                    if r_pre[0] != "ok":
                        if ctx:
                            ctx.count(
                                "intermediate_prefix_not_learnable_(C01)")
                        return
                    raise Violation(
                        f"chunk {i + 1} of {len(chunks)} "
                        f"{[len(c) for c in chunks]} fails through the saved "
                        f"model with {r_last[1:]} but the same "
                        f"{sum(len(c) for c in chunks[:i + 1])} jobs in one "
                        f"run give a diagram")
                break
            model_in = r_last[1][1]
        if r_all[0] != "ok" or r_last[0] != "ok":
            if r_all[0] == r_last[0] and r_all[0] == "exc" and \
                    r_all[1] == r_last[1]:
                if ctx:
                    ctx.count("both_routes_fail_alike_(C01)")
                return
            def d(r):
                return "a diagram" if r[0] == "ok" else f"{r[1:]}"
            raise Violation(
                f"all-at-once gives {d(r_all)} but learning in "
                f"{len(chunks)} chunks {[len(c) for c in chunks]} through "
                f"saved models gives {d(r_last)}")
        text_all, model_all = r_all[1]
        text_inc, model_inc = r_last[1]
        n0, m0 = model_of_file(model_all)
        n1, m1 = model_of_file(model_inc)
        if n0 != wf or n1 != wf:
            raise Violation(f"model files carry job names {n0!r}, {n1!r}")
        if m0 != m1:
            bad = sorted(t for t in set(m0) | set(m1)
                         if m0.get(t) != m1.get(t))
            raise Violation(
                f"final model after {len(chunks)} chunks differs from the "
                f"all-at-once model for {bad}: "
                f"{[(m0.get(t), m1.get(t)) for t in bad[:2]]}")
        ref = {t: v for t, v in ps.model_of_jobs(jobs).items()}
        got = {t: v for t, v in m0.items() if t != "|||START|||"}
        if {t: v[0] for t, v in ref.items()} != \
                {t: v[0] for t, v in got.items()}:
            raise Violation("all-at-once model file does not hold the "
                            "successor sets of the jobs it was learned from")
        if bcnt:
            # outside the reference semantics: compare the texts up to
            # branch order, branch-count annotations included
            msg = None if c03.norm_text(text_all) == c03.norm_text(text_inc) \
                else "texts differ (branch counts)"
        else:
            msg = c03.equivalent(text_all, text_inc, case["sched"])
        if msg:
            # same model, different diagram: is it the history, or is the
            # learner unstable on this model (C03's subject)?  Learn the
            # whole set once more under another schedule seed.
            # Both routes are run again under further schedule seeds: when
            # either one also produces the other one's language (or varies
            # by itself) the difference is not the history's.
            def same(a, b):
                if bcnt:
                    return c03.norm_text(a) == c03.norm_text(b)
                return not c03.equivalent(a, b, case["sched"])
            unstable = False
            for k in range(1, 5):
                learn.SCHED.reseed(case["sched"] + 4242 * k)
                r_again = guarded(run_dispatch, files_all,
                                  os.path.join(tmp, f"out_all_r{k}"), wf)
                if r_again[0] != "ok" or same(r_again[1][0], text_inc) or \
                        not same(r_again[1][0], text_all):
                    unstable = True
                    break
                learn.SCHED.reseed(case["sched"] + 4242 * k + 1)
                r_again = guarded(run_dispatch, files,
                                  os.path.join(tmp, f"out_last_r{k}"), wf,
                                  model_prev)
                if r_again[0] != "ok" or same(r_again[1][0], text_all) or \
                        not same(r_again[1][0], text_inc):
                    unstable = True
                    break
            if unstable:
                if ctx:
                    ctx.count("learner_unstable_on_same_model_(C03)")
                return
            raise Violation(
                f"diagram learned in {len(chunks)} chunks "
                f"{[len(c) for c in chunks]} through saved models is not "
                f"equivalent to all-at-once: {msg}\nall at once:\n"
                f"{text_all}\nincremental:\n{text_inc}")
    finally:
        shutil.rmtree(tmp, ignore_errors=True)


def _otel_parts(case):
    """(whole, part 1, part 2) data sets of an OTel-route history."""
    base = {k: v for k, v in case["otel"].items()
            if k not in ("mapping", "order", "dup_records")}
    base["time_buffer"] = 0
    mask = case["part"]
    parts = ([], [])
    i = 0
    for w in base["workflows"]:
        tr = ([], [])
        for t in w["traces"]:
            tr[mask[i % len(mask)]].append(t)
            i += 1
        for k in (0, 1):
            if tr[k]:
                parts[k].append(dict(w, traces=tr[k]))
    return base, dict(base, workflows=parts[0]), dict(base, workflows=parts[1])


def run_otel_history(case, ctx=None):
    """The same statement on the otel2puml route: `otel2puml -om` on a first
    delivery of OTel data (several workflows), then `otel2puml -im m1 -im m2
    ... -om` on a second delivery, against `otel2puml -om` on everything."""
    import checks.c03 as c03
    import checks.c14 as c14
    whole, p1, p2 = _otel_parts(case)
    if not p1["workflows"] or not p2["workflows"]:
        if ctx:
            ctx.count("otel_history_with_an_empty_part")
        return
    names2 = [w["name"] for w in p2["workflows"]]
    names1 = [w["name"] for w in p1["workflows"]]
    if ctx:
        nt, cl = c14.classify(whole)
        both = [n for n in names2 if n in names1]
        def shapes(part, n):
            return {tuple(sorted(t[1] for t in tr)) for w in part["workflows"]
                    if w["name"] == n for tr in w["traces"]}
        differ = [n for n in both if shapes(p1, n) != shapes(p2, n)]
        if differ:
            cl.append("a_workflow_shows_other_trace_shapes_in_part_2")
        ctx.record(case, bool(differ),
                   ["otel_route"] + cl + [f"models_loaded={len(names1)}",
                                          f"workflows_in_both_parts="
                                          f"{len(both)}"])
    tmp = tempfile.mkdtemp(prefix="verif-c04o-")
    try:
        def run(tag, data, sched, models=()):
            d = os.path.join(tmp, tag)
            os.makedirs(d)
            cfgp, _ = c14.write_inputs(data, d)
            out = os.path.join(d, "out")
            argv = ["-o", out, "otel2puml", "-c", cfgp, "-om"]
            for mp in models:
                argv += ["-im", mp]
            learn.SCHED.reseed(sched)
            learn._STEPS["n"] = 0
            learn._STEPS["limit"] = 2000 * 40 * 6
            try:
                rc, msg = c14.cli(argv)
            except learn.NonTermination as e:
                rc, msg = 99, str(e)
            finally:
                learn._STEPS["limit"] = 0
            return rc, msg, out

        def outputs(out, name):
            stem = os.path.join(out, name.replace(" ", "_"))
            return stem + ".puml", stem + "_model.json"
        sched = case.get("sched", 0)
        rcW, msgW, outW = run("W", whole, sched)
        rc1, msg1, out1 = run("H1", p1, sched + 1)
        if rc1 != 0:
            if ctx:
                ctx.count("first_part_not_learnable_(C01)")
            return
        models = []
        for n in names1:
            mp = outputs(out1, n)[1]
            if not os.path.exists(mp):
                raise Violation(f"otel2puml -om wrote no model for {n!r}: "
                                f"{sorted(os.listdir(out1))}")
            models.append(mp)
        rc2, msg2, out2 = run("H2", p2, sched + 2, models)
        if (rcW != 0) != (rc2 != 0):
            raise Violation(
                f"otel2puml on everything exits {rcW} but the second of two "
                f"deliveries through {len(models)} saved model(s) exits "
                f"{rc2}: {msgW if rcW else msg2}")
        if rcW != 0:
            if ctx:
                ctx.count("both_routes_fail_alike_(C01)")
            return
        for n in names2:
            tW, mW = outputs(outW, n)
            t2, m2 = outputs(out2, n)
            for fp in (tW, mW, t2, m2):
                if not os.path.exists(fp):
                    raise Violation(f"expected output {fp[len(tmp):]} "
                                    f"missing")
            a, b = model_of_file(mW), model_of_file(m2)
            if a != b:
                bad = sorted(t for t in set(a[1]) | set(b[1])
                             if a[1].get(t) != b[1].get(t))
                raise Violation(
                    f"workflow {n!r}: model after two deliveries (models "
                    f"loaded for {names1}) differs from the all-at-once "
                    f"model (names {a[0]!r}, {b[0]!r}) for {bad}: "
                    f"{[(a[1].get(t), b[1].get(t)) for t in bad[:2]]}")
            with open(tW) as f:
                textW = f.read()
            with open(t2) as f:
                text2 = f.read()
            msg = c03.equivalent(textW, text2, sched)
            if not msg:
                continue
            unstable = False
            for k in range(1, 5):
                rc, _, o = run(f"W{n}{k}".replace("/", "_"), whole,
                               sched + 4242 * k)
                if rc != 0:
                    unstable = True
                    break
                with open(outputs(o, n)[0]) as f:
                    tw = f.read()
                if not c03.equivalent(tw, text2, 0) or \
                        c03.equivalent(tw, textW, 0):
                    unstable = True
                    break
                rc, _, o = run(f"H{n}{k}".replace("/", "_"), p2,
                               sched + 4242 * k + 1, models)
                if rc != 0:
                    unstable = True
                    break
                with open(outputs(o, n)[0]) as f:
                    th = f.read()
                if not c03.equivalent(th, textW, 0) or \
                        c03.equivalent(th, text2, 0):
                    unstable = True
                    break
            if unstable:
                if ctx:
                    ctx.count("learner_unstable_on_same_model_(C03)")
                continue
            raise Violation(
                f"workflow {n!r}: diagram after two OTel deliveries through "
                f"saved models is not equivalent to all-at-once: {msg}\n"
                f"all at once:\n{textW}\nincremental:\n{text2}")
    finally:
        shutil.rmtree(tmp, ignore_errors=True)


def run_model_roundtrip(case, ctx=None):
    learn.install()
    from tel2puml.events import (Event, EventSet, save_events_to_file,
                                 load_events_from_file)
    events = {}
    for t, (succ, pred) in case["model"].items():
        e = Event(t)
        for s in succ:
            e.event_sets.add(EventSet(list(s)))
        for s in pred:
            e.in_event_sets.add(EventSet(list(s)))
        events[t] = e
    if ctx:
        multi = any(len(set(s)) < len(s) for v in case["model"].values()
                    for fam in v for s in fam)
        ctx.record(case, multi, ["model_roundtrip"]
                   + (["count>1"] if multi else []))
    want = learn.model_of_events(events)
    tmp = tempfile.mkdtemp(prefix="verif-c04m-")
    try:
        p = os.path.join(tmp, "m.json")
        try:
            save_events_to_file(case["name"], events, p)
            name, back = load_events_from_file(p)
        except Exception as e:
            raise Violation(f"save/load of a model raised "
                            f"{type(e).__name__}: {e}")
        got = learn.model_of_events(back)
        if name != case["name"]:
            raise Violation(f"job name {case['name']!r} came back as "
                            f"{name!r}")
        if got != want:
            bad = sorted(t for t in set(got) | set(want)
                         if got.get(t) != want.get(t))
            raise Violation(f"model file does not round-trip for {bad}: "
                            f"saved {[want.get(t) for t in bad[:2]]}, loaded "
                            f"{[got.get(t) for t in bad[:2]]}")
        # a loaded model must also reproduce the logic: same gate tree
        # language as a freshly built event with the same sets
        import checks.c06 as c06
        for t, e in back.items():
            if not e.event_sets:
                continue
            fresh = Event(t)
            for s in e.event_sets:
                fresh.update_event_sets(s.to_list())
            a = str(e.logic_gate_tree)
            b = str(fresh.logic_gate_tree)
            if (a == "None") != (b == "None"):
                raise Violation(
                    f"event {t} loaded from a model file has gate tree {a} "
                    f"but the same successor sets give {b}")
    finally:
        shutil.rmtree(tmp, ignore_errors=True)


def run_case(case, ctx=None):
    if "model" in case:
        run_model_roundtrip(case, ctx)
    elif "otel" in case:
        run_otel_history(case, ctx)
    else:
        run_history(case, ctx)


def replay(case):
    try:
        run_case(dict(case, force=True))
    except Violation as v:
        return str(v)
    return None


def plan(tier):
    return {"shards": 16, "budget_s": 240 if tier == "quick" else 3000,
            "hashseeds": [0, 1, 2, 3],
            "coverage": {"bounds": "<=16 event types, <=60 jobs per history, "
                         "2-3 chunks; models <=6 types, counts <=4"}}


def strategies():
    from hypothesis import strategies as st

    @st.composite
    def history(draw):
        c = draw(pvcase.cases(max_events=draw(st.integers(4, 12))))
        c["splits"] = sorted(set(draw(st.lists(st.integers(1, 59),
                                               min_size=1, max_size=2))))
        c["name"] = draw(st.sampled_from(["wf", "wf", "pay ments", "x.y",
                                          "a b c"]))
        if draw(st.integers(0, 7)) == 0:
            # branch-count history: the same successor types with different
            # multiplicities arrive in different chunks
            counts = draw(st.lists(st.integers(1, 4), min_size=2, max_size=4,
                                   unique=True))
            c = {"bcnt": {"pre": draw(st.integers(1, 2)),
                          "rep": draw(st.integers(1, 2)),
                          "tail": draw(st.booleans()), "counts": counts},
                 "k": 1, "pick": None, "sched": c["sched"],
                 "splits": c["splits"], "name": c["name"]}
        return c

    names = st.sampled_from(["A", "B", "C", "D", "E F", "G.h", "H ", " I",
                             "A "])
    mset = st.lists(names, min_size=1, max_size=5)
    fam = st.lists(mset, min_size=0, max_size=4)

    @st.composite
    def model(draw):
        ts = draw(st.lists(names, min_size=1, max_size=6, unique=True))
        return {"model": {t: [draw(fam), draw(fam)] for t in ts},
                "name": draw(st.sampled_from(["wf", "a b", "x/y"]))}
    import checks.c14 as c14

    @st.composite
    def otel(draw):
        o = draw(c14.strategy())
        total = sum(len(w["traces"]) for w in o["workflows"])
        part = draw(st.lists(st.integers(0, 1), min_size=max(2, total),
                             max_size=max(2, total)))
        if total >= 2 and len(set(part[:total])) == 1:
            part[0] = 1 - part[0]          # both deliveries non-empty
        return {"otel": o, "part": part, "sched": o.get("sched", 0)}
    return history(), model(), otel()


def run_shard(ctx):
    hist, model, otel = strategies()
    from hypothesis import strategies as st

    def fn(case):
        if "model" in case:
            run_model_roundtrip(case, ctx)
            return
        m = _Bcnt(case) if "bcnt" in case else pvcase.materialise(case)
        n = min(len(m.jobs), 60)
        if 2 <= n <= 6 and not case.get("splits_fixed"):
            # all split points (and all pairs of them) for small sets
            import itertools
            allsp = [[a] for a in range(1, n)] + \
                [list(p) for p in itertools.combinations(range(1, n), 2)]
            ctx.count("histories_with_all_splits")
            for sp in allsp:
                run_history(dict(case, splits=sp), ctx)
        else:
            run_history(case, ctx)

    n = 25 if ctx.tier == "quick" else 900
    if ctx.run_given(hist, fn, n, shrinker=pvcase.shrinker):
        return
    if ctx.run_given(model, fn, 150 if ctx.tier == "quick" else 3000,
                     shrinker=lambda c: iter(()), salt=1):
        return

    def otel_shrinker(case):
        import checks.c14 as c14
        for o in c14.shrinker(case["otel"]):
            yield dict(case, otel=o)
    ctx.run_given(otel, lambda c: run_otel_history(c, ctx),
                  6 if ctx.tier == "quick" else 150, shrinker=otel_shrinker,
                  salt=2)
