"""C07 - loop extraction leaves an acyclic, complete, non-overlapping
nesting."""
import random
from copy import deepcopy

from vlib import gen, learn, pumlsem as ps, pvcase
from vlib.runner import Violation

ID = "C07"
LEVEL = "exploration"
RULE = (
    "a case is (definition containing >=1 loop, loop bound k in 2..3, "
    "complete set or drawn subset, schedule seed); definitions generated "
    "from the block grammar with loops required (nested, with breaks, forks "
    "inside, loops inside forks, self loops) or the loop files of the "
    "corpus. Jobs are ingested by the real code, the directly-follows graph "
    "is built by create_graph_from_events and passed to detect_loops. "
    "Invariants over the result and recursively every LoopEvent.sub_graph: "
    "acyclic; exactly one node of in-degree 0; every input event type on "
    "exactly one non-loop node of the whole nesting (for the few corpus "
    "definitions that use a type at several positions: at least once, at "
    "most that many times); both ends of every "
    "input edge that lies on a cycle are inside one common loop body. Non-trivial: the "
    "input graph has a cycle. Distinct by SHA-1 of the JSON case.")
ASSUMPTIONS = [
    "dummy nodes (|||START|||, |||END|||, DUMMY_BREAK*) and LoopEvent nodes "
    "are not input events",
    "networkx decides cycles / SCCs of the input graph",
]
EXHAUSTIVE = ()   # the loop-shape family is enumerated completely, see counters


def is_dummy(t):
    return t in ("|||START|||", "|||END|||") or t.startswith("DUMMY_BREAK")


def run_case(case, ctx=None):
    import networkx as nx
    learn.install()
    from tel2puml.pv_to_puml.data_ingestion import (
        update_and_create_events_from_clustered_pvevents)
    from tel2puml.events import create_graph_from_events
    from tel2puml.loop_detection.detect_loops import detect_loops
    from tel2puml.loop_detection.loop_types import LoopEvent

    m = pvcase.materialise(case)
    if m.too_large or not m.jobs:
        if ctx:
            ctx.count("skipped_too_large")
        return
    fam = pvcase.known_family(case, m, "C07")
    if fam and not case.get("force"):
        if ctx:
            ctx.exclude(fam)
        return
    learn.SCHED.reseed(case["sched"])
    rng = random.Random(case["sched"] ^ 0x5EED)
    pv = [learn.job_to_pv(j, "job", rng=rng) for j in m.jobs]
    events = update_and_create_events_from_clustered_pvevents(
        pv, add_dummy_start=True)
    graph = create_graph_from_events(deepcopy(events).values())
    dfg = nx.DiGraph()
    for u, v in graph.edges():
        dfg.add_edge(u.event_type, v.event_type)
    for e in graph.nodes():
        dfg.add_node(e.event_type)
    types = {t for t in dfg.nodes() if not is_dummy(t)}
    cyc_edges = set()
    for scc in nx.strongly_connected_components(dfg):
        if len(scc) > 1:
            cyc_edges |= {(u, v) for u, v in dfg.edges()
                          if u in scc and v in scc}
    cyc_edges |= {(u, v) for u, v in dfg.edges() if u == v}
    if ctx:
        cl = pvcase.case_classes(case, m)
        ctx.record(case, bool(cyc_edges), cl,
                   sample={"definition": ps.show(m.ast), "k": case["k"],
                           "jobs": len(m.jobs)})
    try:
        res = detect_loops(graph)
    except Exception as e:
        raise Violation(f"detect_loops raised {type(e).__name__}: {e}")

    where = {}          # type -> list of paths
    nloops = [0]
    odd = []

    def visit(g, path):
        if g.number_of_nodes() == 0:
            raise Violation(f"empty graph at {path or 'top level'}")
        if not nx.is_directed_acyclic_graph(g):
            cyc = nx.find_cycle(g)
            raise Violation(
                f"graph at {path or 'top level'} still has a cycle: "
                f"{[(a.event_type, b.event_type) for a, b in cyc]}")
        roots = [n for n in g.nodes() if g.in_degree(n) == 0]
        if len(roots) != 1:
            raise Violation(
                f"graph at {path or 'top level'} has {len(roots)} entry "
                f"nodes: {sorted(n.event_type for n in roots)}")
        for n in g.nodes():
            if isinstance(n, LoopEvent):
                nloops[0] += 1
                sub = n.sub_graph
                # observed, not demanded (the statement does not mention
                # the uid bookkeeping): do the uids name sub graph nodes?
                uids = {x.uid for x in sub.nodes()}
                for nm in ("_start_uid", "_end_uid"):
                    if getattr(n, nm, None) not in uids:
                        odd.append(nm)
                if not set(getattr(n, "_break_uids", None) or ()) <= uids:
                    odd.append("_break_uids")
                visit(sub, path + (n.event_type,))
            elif not is_dummy(n.event_type):
                where.setdefault(n.event_type, []).append(path)

    visit(res, ())
    lost = sorted(types - set(where))
    if lost:
        raise Violation(f"event types lost by loop extraction: {lost}")
    # a definition of the corpus may use one event type at several
    # positions (e.g. inside a loop and after it); the nesting then has to
    # show it up to that many times to reproduce the definition.  Fragment F
    # has distinct names, so this is "exactly once" there.
    occ = {}
    for nme in ps.event_names(m.ast):
        occ[nme] = occ.get(nme, 0) + 1
    dup = {t: p for t, p in where.items() if len(p) > occ.get(t, 1)}
    if dup:
        raise Violation(f"event types present more than once in the nesting:"
                        f" {dup}")
    invented = sorted(set(where) - types)
    if invented:
        raise Violation(f"event types invented by loop extraction: "
                        f"{invented}")
    for u, v in sorted(cyc_edges):
        pu, pv_ = where[u][0], where[v][0]
        if not pu or not pv_ or pu[0] != pv_[0]:
            raise Violation(
                f"cyclic dependency {u}->{v} of the input is not inside one "
                f"loop body: {u} at {pu or 'top level'}, {v} at "
                f"{pv_ or 'top level'}")
    if cyc_edges and nloops[0] == 0:
        raise Violation("input has cycles but no loop was extracted")
    if ctx:
        ctx.count("loops_extracted", nloops[0])
        for o in odd:
            ctx.count("observed_only:" + o + "_not_in_sub_graph")
        if any(v > 1 for v in occ.values()):
            ctx.count("definitions_with_repeated_event_type")
        if any(len(p[0]) >= 2 for p in where.values()):
            ctx.count("cases_with_nested_extraction")


def replay(case):
    try:
        run_case(dict(case, force=True))
    except Violation as v:
        return str(v)
    return None


def plan(tier):
    return {"shards": 16, "budget_s": 200 if tier == "quick" else 2400,
            "hashseeds": [0, 1, 2, 3],
            "coverage": {"bounds": "<=16(+4) event types, depth <=3, "
                         "<=400 jobs, loops 2..3"}}


def run_shard(ctx):
    files = [f for f in pvcase.corpus_files()
             if any(isinstance(n, ps.Loop)
                    for n in ps.walk(ps.parse_puml(f[1])))]
    ctx.notes["corpus_loop_files"] = len(files)
    for i, (name, _) in enumerate(files):
        if i % ctx.nshards != ctx.shard:
            continue
        for k in (2, 3):
            case = {"corpus": name, "k": k, "pick": None,
                    "sched": ctx.seed * 1000 + i}
            try:
                run_case(case, ctx)
            except Violation as v:
                ctx.violation(case, str(v))
                return
    # loops ending in a fork inside nested forks (24 definitions)
    for i, (tag, ast) in enumerate(gen.deep_loop_fork_shapes()):
        if i % ctx.nshards != ctx.shard:
            continue
        case = {"defn": ps.to_json(ast), "k": 2, "pick": None,
                "sched": ctx.seed * 1000 + i}
        ctx.count("deep_loop_fork_shapes_enumerated")
        try:
            run_case(case, ctx)
        except Violation as v:
            ctx.violation(case, f"[deep shape {tag}] " + str(v))
            return
    # richer break decisions (forks / loops inside the break branch)
    for tag, case in pvcase.break_branch_cases(ctx.seed, ctx.shard,
                                               ctx.nshards, True):
        ctx.count("break_branch_shapes_enumerated")
        try:
            run_case(case, ctx)
        except Violation as v:
            ctx.violation(case, f"[break branch shape {tag}] " + str(v))
            return
    # exhaustive loop/break family (1000 definitions, complete sets, k=2)
    for tag, case in pvcase.loop_shape_cases(ctx.seed, ctx.shard,
                                             ctx.nshards):
        ctx.count("loop_shapes_enumerated")
        try:
            run_case(case, ctx)
        except Violation as v:
            ctx.violation(case, f"[loop shape {tag}] " + str(v))
            return
    n = 150 if ctx.tier == "quick" else 4000
    from hypothesis import strategies as st
    ctx.run_given(pvcase.cases(ks=(2, 3), loops_required=True),
                  lambda c: run_case(c, ctx), n, shrinker=pvcase.shrinker)
